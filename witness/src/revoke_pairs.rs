//! C06 (locality) witness: a reactor holding (insertion of A, event u32) on each of two entities; a removal naming ONE
//! trigger on EACH entity, of different kinds, must leave the two triggers it does not name working.
use super::*;

#[derive(ReactComponent)]
struct A;

struct PairReactor;
static RUNS: std::sync::atomic::AtomicU32 = std::sync::atomic::AtomicU32::new(0);

impl WorldReactor for PairReactor
{
    type StartingTriggers = ();
    type Triggers = (EntityInsertionTrigger<A>, EntityEventTrigger<u32>);
    fn reactor(self) -> SystemCommandCallback
    {
        SystemCommandCallback::new(|| { RUNS.fetch_add(1, std::sync::atomic::Ordering::SeqCst); })
    }
}

pub fn run(_args: &[String]) -> Outcome
{
    RUNS.store(0, std::sync::atomic::Ordering::SeqCst);
    let mut app = new_app();
    app.add_world_reactor(PairReactor);
    let world = app.world_mut();
    let e1 = world.spawn_empty().id();
    let e2 = world.spawn_empty().id();
    world.syscall((), move |mut c: Commands, r: Reactor<PairReactor>| {
        r.add(&mut c, (entity_insertion::<A>(e1), entity_event::<u32>(e1)));
        r.add(&mut c, (entity_insertion::<A>(e2), entity_event::<u32>(e2)));
    });
    world.syscall((), move |mut c: Commands, r: Reactor<PairReactor>| {
        r.remove(&mut c, (entity_insertion::<A>(e1), entity_event::<u32>(e2)));
    });
    // the two revoked triggers: no run; the two triggers the removal did not name: one run each
    world.react(|rc| rc.insert(e1, A));
    world.react(|rc| rc.entity_event(e2, 1u32));
    let revoked_runs = RUNS.load(std::sync::atomic::Ordering::SeqCst);
    world.react(|rc| rc.entity_event(e1, 2u32));
    world.react(|rc| rc.insert(e2, A));
    let kept_runs = RUNS.load(std::sync::atomic::Ordering::SeqCst) - revoked_runs;
    let ok = revoked_runs == 0 && kept_runs == 2;
    Outcome{
        ok,
        json: format!("{{\"scenario\":\"revoke_pairs\",\"ok\":{},\"observed\":{{\"runs_of_revoked_triggers\":{},\"runs_of_triggers_not_named\":{}}},\"expected\":{{\"runs_of_revoked_triggers\":0,\"runs_of_triggers_not_named\":2}}}}",
            ok, revoked_runs, kept_runs),
    }
}
