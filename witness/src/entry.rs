//! C14 witness: each public trigger call on a live entity causes exactly one run of each matching reactor - the
//! entity-scoped one and the type-wide one - carrying the call's own target / payload, and no run of reactors of another kind.
use super::*;

#[derive(ReactComponent)]
struct Marker(u32);
struct Ping(u32);

pub fn run(args: &[String]) -> Outcome
{
    let what = args.get(0).map(|s| s.as_str()).unwrap_or("entity_event");
    let runs: Arc<Mutex<Vec<u32>>> = Arc::new(Mutex::new(Vec::new()));
    let mut app = new_app();
    let world = app.world_mut();
    let target = world.spawn_empty().id();
    let other = world.spawn_empty().id();
    // listeners of every kind on `target`, entity-scoped (1x) and type-wide (2x); the pushed value says which one ran
    let l = runs.clone();
    world.react(|rc| rc.on_persistent(entity_event::<Ping>(target), move |ev: EntityEvent<Ping>| { if let Ok((e, p)) = ev.try_read() { l.lock().unwrap().push(100 + p.0 + if e == target { 0 } else { 50 }); } }));
    let l = runs.clone();
    world.react(|rc| rc.on_persistent(any_entity_event::<Ping>(), move |ev: EntityEvent<Ping>| { if let Ok((e, p)) = ev.try_read() { l.lock().unwrap().push(200 + p.0 + if e == target { 0 } else { 50 }); } }));
    let l = runs.clone();
    world.react(|rc| rc.on_persistent(entity_insertion::<Marker>(target), move |ev: InsertionEvent<Marker>| { if ev.get().ok() == Some(target) { l.lock().unwrap().push(300); } else { l.lock().unwrap().push(350); } }));
    let l = runs.clone();
    world.react(|rc| rc.on_persistent(insertion::<Marker>(), move |ev: InsertionEvent<Marker>| { if ev.get().ok() == Some(target) { l.lock().unwrap().push(400); } else { l.lock().unwrap().push(450); } }));
    let l = runs.clone();
    world.react(|rc| rc.on_persistent(entity_mutation::<Marker>(target), move |ev: MutationEvent<Marker>| { if ev.get().ok() == Some(target) { l.lock().unwrap().push(500); } else { l.lock().unwrap().push(550); } }));
    let l = runs.clone();
    world.react(|rc| rc.on_persistent(mutation::<Marker>(), move |ev: MutationEvent<Marker>| { if ev.get().ok() == Some(target) { l.lock().unwrap().push(600); } else { l.lock().unwrap().push(650); } }));
    let _ = other;
    let expected: Vec<u32> = match what
    {
        "entity_event" => { world.react(|rc| rc.entity_event(target, Ping(7))); vec![107, 207] }
        "insert" => { world.react(|rc| rc.insert(target, Marker(1))); vec![300, 400] }
        _ =>
        {
            world.react(|rc| rc.insert(target, Marker(1)));
            runs.lock().unwrap().clear();
            world.syscall(target, |In(e): In<Entity>, mut c: Commands, mut q: ReactiveMut<Marker>| { let _ = q.get_mut(&mut c, e); });
            vec![500, 600]
        }
    };
    let v = runs.lock().unwrap().clone();
    let ok = v == expected;
    Outcome{ ok, json: format!("{{\"scenario\":\"entry\",\"what\":\"{}\",\"ok\":{},\"observed\":{{\"reactor_runs\":{}}},\"expected\":{{\"reactor_runs\":{}}}}}", what, ok, fmt_list(&v), fmt_list(&expected)) }
}
