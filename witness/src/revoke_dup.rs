//! C06 / finding F2 witness: a reactor that registered the same type-wide trigger twice and then removed / revoked
//! it once must not be scheduled by that trigger again (the property's wording).
use super::*;

struct Ping;

struct DupReactor;
static RUNS: std::sync::atomic::AtomicU32 = std::sync::atomic::AtomicU32::new(0);

impl WorldReactor for DupReactor
{
    type StartingTriggers = ();
    type Triggers = BroadcastTrigger<Ping>;
    fn reactor(self) -> SystemCommandCallback
    {
        SystemCommandCallback::new(|| { RUNS.fetch_add(1, std::sync::atomic::Ordering::SeqCst); })
    }
}

pub fn run(args: &[String]) -> Outcome
{
    let how = args.get(0).map(|s| s.as_str()).unwrap_or("world_reactor");
    RUNS.store(0, std::sync::atomic::Ordering::SeqCst);
    let mut app = new_app();
    match how
    {
        "world_reactor" =>
        {
            app.add_world_reactor(DupReactor);
            let world = app.world_mut();
            world.syscall((), |mut c: Commands, r: Reactor<DupReactor>| { r.add(&mut c, broadcast::<Ping>()); r.add(&mut c, broadcast::<Ping>()); });
            world.syscall((), |mut c: Commands, r: Reactor<DupReactor>| { r.remove(&mut c, broadcast::<Ping>()); });
            world.react(|rc| rc.broadcast(Ping));
        }
        "once_duplicate" =>
        {
            // a one-off reactor whose bundle repeats a trigger, revoked before any trigger fires: it must never run
            let world = app.world_mut();
            let t = world.react(|rc| rc.once((broadcast::<Ping>(), broadcast::<Ping>()), || { RUNS.fetch_add(1, std::sync::atomic::Ordering::SeqCst); }));
            world.react(|rc| rc.revoke(t));
            world.react(|rc| rc.broadcast(Ping));
        }
        _ =>
        {
            // the same system command registered twice with `with`, revoked once with a token naming the trigger once
            let world = app.world_mut();
            let cmd = world.spawn_system_command(|| { RUNS.fetch_add(1, std::sync::atomic::Ordering::SeqCst); });
            let _t1 = world.react(|rc| rc.with(broadcast::<Ping>(), cmd, ReactorMode::Persistent));
            let t2 = world.react(|rc| rc.with(broadcast::<Ping>(), cmd, ReactorMode::Revokable)).unwrap();
            world.react(|rc| rc.revoke(t2));
            world.react(|rc| rc.broadcast(Ping));
        }
    }
    let runs = RUNS.load(std::sync::atomic::Ordering::SeqCst);
    // world_reactor: after remove() the reactor must not run at all.  with_twice: one registration (the persistent one)
    // legitimately remains, so exactly one run is expected.
    let expected = if how == "world_reactor" || how == "once_duplicate" { 0 } else { 1 };
    Outcome{
        ok: runs == expected,
        json: format!("{{\"scenario\":\"revoke_dup\",\"how\":\"{}\",\"ok\":{},\"observed\":{{\"runs_after_revoke\":{}}},\"expected\":{{\"runs_after_revoke\":{}}}}}",
            how, runs == expected, runs, expected),
    }
}
