//! C18 / C14 witness (findings F3, F4): operations whose target entity was despawned by the time they are applied
//! must not run any reactor on behalf of the dead target.
use super::*;

#[derive(ReactComponent)]
struct Marker(u32);
struct Ping(u32);

pub fn run(args: &[String]) -> Outcome
{
    let what = args.get(0).map(|s| s.as_str()).unwrap_or("entity_event");
    let runs: Arc<Mutex<Vec<u32>>> = Arc::new(Mutex::new(Vec::new()));
    let mut app = new_app();
    let world = app.world_mut();
    match what
    {
        "entity_event" =>
        {
            // a type-wide entity-event listener; the event is aimed at an entity that is already despawned
            let l = runs.clone();
            world.react(|rc| rc.on_persistent(any_entity_event::<Ping>(), move |ev: EntityEvent<Ping>| { if let Ok((_, p)) = ev.try_read() { l.lock().unwrap().push(p.0); } }));
            let target = world.spawn_empty().id();
            world.despawn(target);
            world.react(|rc| rc.entity_event(target, Ping(7)));
        }
        "insert" =>
        {
            // a type-wide insertion reactor; the entity is despawned between `insert` being queued and applied
            let l = runs.clone();
            world.react(|rc| rc.on_persistent(insertion::<Marker>(), move |ev: InsertionEvent<Marker>| { if ev.get().is_ok() { l.lock().unwrap().push(1); } }));
            let target = world.spawn_empty().id();
            world.syscall(target, |In(e): In<Entity>, mut c: Commands| { /* despawn is queued first: the entity is gone when the insert applies */ c.entity(e).despawn(); c.react().insert(e, Marker(1)); });
        }
        _ =>
        {
            // a type-wide mutation reactor; the entity is despawned between the mutation being queued and applied
            let l = runs.clone();
            world.react(|rc| rc.on_persistent(mutation::<Marker>(), move |ev: MutationEvent<Marker>| { if ev.get().is_ok() { l.lock().unwrap().push(2); } }));
            let target = world.spawn_empty().id();
            world.react(|rc| rc.insert(target, Marker(1)));
            world.syscall(target, |In(e): In<Entity>, mut c: Commands, mut q: ReactiveMut<Marker>| { /* despawn is queued first: the entity is gone when the trigger applies */ c.entity(e).despawn(); let _ = q.get_mut(&mut c, e); });
        }
    }
    let v = runs.lock().unwrap().clone();
    let ok = v.is_empty();
    Outcome{ ok, json: format!("{{\"scenario\":\"dead_target\",\"what\":\"{}\",\"ok\":{},\"observed\":{{\"reactor_runs\":{}}},\"expected\":{{\"reactor_runs\":[]}}}}", what, ok, fmt_list(&v)) }
}
