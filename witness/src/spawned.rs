//! C17 witness: a spawned system that despawns its own entity during the call still returns its output.
use super::*;

pub fn run(_args: &[String]) -> Outcome
{
    let mut app = new_app();
    let world = app.world_mut();
    let cell: Arc<Mutex<Option<Entity>>> = Arc::new(Mutex::new(None));
    let cc = cell.clone();
    let id = spawn_system(world, move |In(x): In<u32>, mut c: Commands| -> u32 { if let Some(me) = *cc.lock().unwrap() { c.entity(me).despawn(); } x + 1 });
    *cell.lock().unwrap() = Some(id.entity());
    let first = spawned_syscall::<In<u32>, u32>(world, id, 41);
    let gone = world.get_entity(id.entity()).is_err();
    let second = spawned_syscall::<In<u32>, u32>(world, id, 1);
    let ok = first == Ok(42) && gone && second.is_err();
    Outcome{ ok, json: format!("{{\"scenario\":\"spawned\",\"ok\":{},\"observed\":{{\"first\":\"{:?}\",\"entity_gone\":{},\"second_is_err\":{}}},\"expected\":{{\"first\":\"Ok(42)\",\"entity_gone\":true,\"second_is_err\":true}}}}", ok, first, gone, second.is_err()) }
}
