//! C15 witness: a one-off reactor runs on the first of its triggers only - also when several of its triggers fire in the
//! same tree, later, or when it triggers itself - and afterwards its entity is gone.
use super::*;

pub fn run(args: &[String]) -> Outcome
{
    let what = args.get(0).map(|s| s.as_str()).unwrap_or("twice");
    let log: Log = Arc::new(Mutex::new(Vec::new()));
    let mut app = new_app();
    let world = app.world_mut();
    let l = log.clone();
    if what == "never_runs"
    {
        // a one-off reactor that is revoked before any trigger fires, and one with an empty bundle: both are gone after
        // the next garbage collection, without ever having run
        let l2 = log.clone();
        let t = world.react(|rc| rc.once(broadcast::<u32>(), move || { l2.lock().unwrap().push(1); }));
        let e1: Entity = *SystemCommand::from(t.clone());
        world.react(|rc| rc.revoke(t));
        let l3 = log.clone();
        let t2 = world.react(|rc| rc.once((), move || { l3.lock().unwrap().push(2); }));
        let e2: Entity = *SystemCommand::from(t2);
        world.react(|rc| rc.broadcast(7u32));
        garbage_collect_entities(world);
        let gone = world.get_entity(e1).is_err() && world.get_entity(e2).is_err();
        let v = log.lock().unwrap().clone();
        let ok = v.is_empty() && gone;
        return Outcome{ ok, json: format!("{{\"scenario\":\"once\",\"what\":\"never_runs\",\"ok\":{},\"observed\":{{\"runs\":{},\"entities_gone\":{}}},\"expected\":{{\"runs\":[],\"entities_gone\":true}}}}", ok, fmt_list(&v), gone) };
    }
    let token = match what
    {
        "self_trigger" => world.react(|rc| rc.once(broadcast::<u32>(), move |mut c: Commands| { l.lock().unwrap().push(1); c.react().broadcast(2u32); })),
        _ => world.react(|rc| rc.once((broadcast::<u32>(), broadcast::<u64>()), move || { l.lock().unwrap().push(1); })),
    };
    let reactor_entity: Entity = *SystemCommand::from(token.clone());
    // both triggers in ONE tree, then each again later
    world.syscall((), |mut c: Commands| { c.react().broadcast(1u32); c.react().broadcast(1u64); c.react().broadcast(3u32); });
    world.react(|rc| rc.broadcast(4u64));
    world.react(|rc| rc.broadcast(5u32));
    let gone = world.get_entity(reactor_entity).is_err();
    let v = log.lock().unwrap().clone();
    let ok = v == vec![1] && gone;
    Outcome{ ok, json: format!("{{\"scenario\":\"once\",\"what\":\"{}\",\"ok\":{},\"observed\":{{\"runs\":{},\"entity_gone\":{}}},\"expected\":{{\"runs\":[1],\"entity_gone\":true}}}}", what, ok, fmt_list(&v), gone) }
}
