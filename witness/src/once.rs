//! C15 witness: a one-off reactor runs on the first of its triggers only - also when several of its triggers fire in the
//! same tree, later, or when it triggers itself - and afterwards its entity is gone.
use super::*;

pub fn run(args: &[String]) -> Outcome
{
    let what = args.get(0).map(|s| s.as_str()).unwrap_or("twice");
    let log: Log = Arc::new(Mutex::new(Vec::new()));
    let mut app = new_app();
    let world = app.world_mut();
    let l = log.clone();
    let token = match what
    {
        "self_trigger" => world.react(|rc| rc.once(broadcast::<u32>(), move |mut c: Commands| { l.lock().unwrap().push(1); c.react().broadcast(2u32); })),
        _ => world.react(|rc| rc.once((broadcast::<u32>(), broadcast::<u64>()), move || { l.lock().unwrap().push(1); })),
    };
    let reactor_entity: Entity = *SystemCommand::from(token.clone());
    // both triggers in ONE tree, then each again later
    world.syscall((), |mut c: Commands| { c.react().broadcast(1u32); c.react().broadcast(1u64); c.react().broadcast(3u32); });
    world.react(|rc| rc.broadcast(4u64));
    world.react(|rc| rc.broadcast(5u32));
    let gone = world.get_entity(reactor_entity).is_err();
    let v = log.lock().unwrap().clone();
    let ok = v == vec![1] && gone;
    Outcome{ ok, json: format!("{{\"scenario\":\"once\",\"what\":\"{}\",\"ok\":{},\"observed\":{{\"runs\":{},\"entity_gone\":{}}},\"expected\":{{\"runs\":[1],\"entity_gone\":true}}}}", what, ok, fmt_list(&v), gone) }
}
