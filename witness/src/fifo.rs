//! C12 / C03 witness: one run sends n deliveries of one kind to a BUSY target (itself); the target must
//! process them in the order sent, each with its own data.
use super::*;

#[derive(ReactComponent, Default)]
struct Val(u32);

pub fn run(args: &[String]) -> Outcome
{
    let kind = args.get(0).map(|s| s.as_str()).unwrap_or("system_event");
    let n: u32 = args.get(1).and_then(|s| s.parse().ok()).unwrap_or(4);
    let log: Log = Arc::new(Mutex::new(Vec::new()));
    let expected: Vec<u32> = (1..=n).collect();
    let mut app = new_app();
    let world = app.world_mut();

    match kind
    {
        "system_event" =>
        {
            let l = log.clone();
            let cmd_cell: Arc<Mutex<Option<SystemCommand>>> = Arc::new(Mutex::new(None));
            let cc = cmd_cell.clone();
            let cmd = world.spawn_system_command(
                move |mut ev: SystemEvent<u32>, mut c: Commands|
                {
                    let me = cc.lock().unwrap().unwrap();
                    match ev.take()
                    {
                        Ok(0) => { for i in 1..=n { c.send_system_event(me, i); } }
                        Ok(x) => { l.lock().unwrap().push(x); }
                        Err(_) => { l.lock().unwrap().push(9999); }
                    }
                }
            );
            *cmd_cell.lock().unwrap() = Some(cmd);
            world.send_system_event(cmd, 0u32);
        }
        "broadcast" =>
        {
            let l = log.clone();
            world.react(|rc| rc.on_persistent(broadcast::<u32>(),
                move |ev: BroadcastEvent<u32>, mut c: Commands|
                {
                    match ev.try_read()
                    {
                        Ok(0) => { for i in 1..=n { c.react().broadcast(i); } }
                        Ok(x) => { l.lock().unwrap().push(*x); }
                        Err(_) => { l.lock().unwrap().push(9999); }
                    }
                }
            ));
            world.react(|rc| rc.broadcast(0u32));
        }
        "entity_event" =>
        {
            let l = log.clone();
            let e = world.spawn_empty().id();
            world.react(|rc| rc.on_persistent(entity_event::<u32>(e),
                move |ev: EntityEvent<u32>, mut c: Commands|
                {
                    match ev.try_read()
                    {
                        Ok((t, 0)) => { for i in 1..=n { c.react().entity_event(t, i); } }
                        Ok((_, x)) => { l.lock().unwrap().push(*x); }
                        Err(_) => { l.lock().unwrap().push(9999); }
                    }
                }
            ));
            world.react(|rc| rc.entity_event(e, 0u32));
        }
        "mutation" =>
        {
            // n+1 entities; the reactor reacts to a mutation on entity 0 by mutating entities 1..=n in order,
            // then records which entity each postponed run is told about.
            let l = log.clone();
            let ents: Vec<Entity> = (0..=n).map(|i| world.spawn(Name::new(format!("{i}"))).id()).collect();
            world.react(|rc| { for (i, e) in ents.iter().enumerate() { rc.insert(*e, Val(i as u32)); } });
            let ents2 = ents.clone();
            world.react(|rc| rc.on_persistent(mutation::<Val>(),
                move |ev: MutationEvent<Val>, mut c: Commands, mut q: Query<&mut React<Val>>|
                {
                    let Ok(src) = ev.get() else { l.lock().unwrap().push(9999); return; };
                    let idx = ents2.iter().position(|e| *e == src).unwrap() as u32;
                    if idx == 0
                    {
                        for i in 1..=n { let _ = q.get_mut(ents2[i as usize]).unwrap().get_mut(&mut c); }
                    }
                    else { l.lock().unwrap().push(idx); }
                }
            ));
            world.syscall((), move |mut c: Commands, mut q: Query<&mut React<Val>>| { let _ = q.get_mut(ents[0]).unwrap().get_mut(&mut c); });
        }
        "despawn" =>
        {
            // reactor R watches despawn of n entities; while R is busy (manual run) it despawns them all and pokes
            // another system so that the despawns are polled while R is still executing -> n postponed despawn
            // reactions for R.
            let l = log.clone();
            let ents: Vec<Entity> = (0..n).map(|_| world.spawn_empty().id()).collect();
            let other = world.spawn_system_command(|| {});
            let ents2 = ents.clone();
            let r = world.spawn_system_command(
                move |ev: DespawnEvent, mut c: Commands|
                {
                    match ev.get()
                    {
                        Err(_) => { for e in ents2.iter() { c.entity(*e).despawn(); } c.queue(other); }
                        Ok(e) => { l.lock().unwrap().push(1 + ents2.iter().position(|x| *x == e).unwrap() as u32); }
                    }
                }
            );
            for e in ents.iter() { let e = *e; world.react(|rc| { rc.with(despawn(e), r, ReactorMode::Persistent); }); }
            r.apply(world);
        }
        "mixed" =>
        {
            // pattern over {s = system event, b = broadcast}: the busy system sends itself deliveries 1..=len in
            // this order, mixing kinds; it must process them in the order sent.
            let pat: Vec<char> = args.get(2).map(|s| s.chars().collect()).unwrap_or(vec!['s','b','s']);
            let l = log.clone();
            let cmd_cell: Arc<Mutex<Option<SystemCommand>>> = Arc::new(Mutex::new(None));
            let cc = cmd_cell.clone();
            let pat2 = pat.clone();
            let cmd = world.spawn_system_command(
                move |mut ev: SystemEvent<u32>, bv: BroadcastEvent<u32>, mut c: Commands|
                {
                    let me = cc.lock().unwrap().unwrap();
                    let got = match (ev.take(), bv.try_read()) {
                        (Ok(x), Err(_)) => x,
                        (Err(_), Ok(x)) => *x,
                        _ => 9999,
                    };
                    if got == 0
                    {
                        for (i, k) in pat2.iter().enumerate()
                        {
                            let v = 1 + i as u32;
                            if *k == 's' { c.send_system_event(me, v); } else { c.react().broadcast(v); }
                        }
                    }
                    else { l.lock().unwrap().push(got); }
                }
            );
            *cmd_cell.lock().unwrap() = Some(cmd);
            world.react(|rc| { rc.with(broadcast::<u32>(), cmd, ReactorMode::Persistent); });
            world.send_system_event(cmd, 0u32);
            let observed = log.lock().unwrap().clone();
            let expected: Vec<u32> = (1..=pat.len() as u32).collect();
            let ok = observed == expected;
            return Outcome{ ok, json: format!("{{\"scenario\":\"fifo\",\"kind\":\"mixed\",\"ok\":{},\"observed\":{},\"expected\":{}}}",
                ok, fmt_list(&observed), fmt_list(&expected)) };
        }
        _ => { eprintln!("unknown kind"); std::process::exit(3); }
    }

    let observed = log.lock().unwrap().clone();
    let ok = observed == expected;
    Outcome{ ok, json: format!("{{\"scenario\":\"fifo\",\"kind\":\"{}\",\"n\":{},\"ok\":{},\"observed\":{},\"expected\":{}}}",
        kind, n, ok, fmt_list(&observed), fmt_list(&expected)) }
}
