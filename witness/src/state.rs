//! C13 witness: a registered system's Local state survives every one of its runs - also for an exclusive (world-access)
//! system one of whose runs returns an error that has to be reported.
use super::*;

#[derive(Resource, Default)]
struct Seen(Vec<u32>);

fn exclusive_counting(world: &mut World, mut runs: Local<u32>) -> WarnErr
{
    *runs += 1;
    let n = *runs;
    world.resource_mut::<Seen>().0.push(n);
    if n == 2 { return Err(WarnError::Msg("second run reports an error".into())); }
    Ok(())
}

pub fn run(_args: &[String]) -> Outcome
{
    let mut app = new_app();
    let world = app.world_mut();
    world.init_resource::<Seen>();
    let cmd = world.spawn_system_command(exclusive_counting);
    for _ in 0..4 { world.commands().queue(cmd); world.flush(); }
    let v = world.resource::<Seen>().0.clone();
    let ok = v == vec![1, 2, 3, 4];
    Outcome{ ok, json: format!("{{\"scenario\":\"state\",\"ok\":{},\"observed\":{{\"local_counter_per_run\":{}}},\"expected\":{{\"local_counter_per_run\":[1,2,3,4]}}}}", ok, fmt_list(&v)) }
}
