//! C02 / C05 / C09 / C11 / C12 / C13 witnesses for the runner family: public-API scenarios on the real crate + real Bevy
//! whose expectations are the properties' own wording.  Each exercises one failure family of the runner-step obligations
//! (replayed commands keep their own cleanup; replay order; abort paths release event data; depth; vanished listeners).
use super::*;
use std::sync::atomic::{AtomicUsize, Ordering};

static DROPS: AtomicUsize = AtomicUsize::new(0);
struct Payload(u32);
impl Drop for Payload { fn drop(&mut self) { DROPS.fetch_add(1, Ordering::SeqCst); } }

pub fn run(args: &[String]) -> Outcome
{
    let what = args.get(0).map(|s| s.as_str()).unwrap_or("mixed_kinds");
    let log: Log = Arc::new(Mutex::new(Vec::new()));
    let mut app = new_app();
    let world = app.world_mut();
    let mut expected: Vec<u32> = Vec::new();
    let mut extra_ok = true;
    let mut note = String::new();
    match what
    {
        // one system is the target of system events AND a broadcast reactor; its first run (a system event) broadcasts:
        // the broadcast reaction is postponed and replayed with the broadcast's own setup/cleanup
        "mixed_kinds" =>
        {
            let l = log.clone();
            let cell: Arc<Mutex<Option<SystemCommand>>> = Arc::new(Mutex::new(None));
            let cc = cell.clone();
            let cmd = world.spawn_system_command(
                move |mut sev: SystemEvent<u32>, bev: BroadcastEvent<Payload>, mut c: Commands|
                {
                    let _me = cc.lock().unwrap().unwrap();
                    match (sev.take(), bev.try_read())
                    {
                        (Ok(0), Err(_)) => { l.lock().unwrap().push(1); c.react().broadcast(Payload(7)); }
                        (Err(_), Ok(p)) => { l.lock().unwrap().push(100 + p.0); }
                        (Ok(_), Ok(_)) => { l.lock().unwrap().push(9001); }
                        _ => { l.lock().unwrap().push(9002); }
                    }
                }
            );
            *cell.lock().unwrap() = Some(cmd);
            world.react(|rc| rc.with(broadcast::<Payload>(), cmd, ReactorMode::Persistent));
            // probe: a later, unrelated run must see no event at all
            let lp = log.clone();
            let probe = world.spawn_system_command(move |bev: BroadcastEvent<Payload>, mut sev: SystemEvent<u32>|
                { lp.lock().unwrap().push(if bev.try_read().is_ok() || sev.take().is_ok() { 9003 } else { 50 }); });
            world.send_system_event(cmd, 0u32);
            let drops_after_tree = DROPS.load(Ordering::SeqCst);
            world.queue_probe(probe);
            expected = vec![1, 107, 50];
            extra_ok = drops_after_tree == 1;
            note = format!("\"payload_drops_after_tree\":{},\"expected_drops\":1", drops_after_tree);
        }
        // a busy target receives three deliveries of mixed kinds from one run: processed in the order sent
        "replay_order" =>
        {
            let l = log.clone();
            let cell: Arc<Mutex<Option<SystemCommand>>> = Arc::new(Mutex::new(None));
            let cc = cell.clone();
            let cmd = world.spawn_system_command(
                move |mut sev: SystemEvent<u32>, bev: BroadcastEvent<u32>, mut c: Commands|
                {
                    let me = cc.lock().unwrap().unwrap();
                    match (sev.take(), bev.try_read())
                    {
                        (Ok(0), Err(_)) => { c.send_system_event(me, 1u32); c.react().broadcast(2u32); c.send_system_event(me, 3u32); c.react().broadcast(4u32); }
                        (Ok(x), Err(_)) => { l.lock().unwrap().push(x); }
                        (Err(_), Ok(x)) => { l.lock().unwrap().push(*x); }
                        _ => { l.lock().unwrap().push(9001); }
                    }
                }
            );
            *cell.lock().unwrap() = Some(cmd);
            world.react(|rc| rc.with(broadcast::<u32>(), cmd, ReactorMode::Persistent));
            world.send_system_event(cmd, 0u32);
            expected = vec![1, 2, 3, 4];
        }
        // an event-carrying command aimed at a live entity that carries no system: its payload is released by the end of
        // the call and nobody is left "reacting"
        "abort_releases" =>
        {
            let plain = world.spawn_empty().id();
            world.send_system_event(SystemCommand(plain), Payload(3));
            let drops = DROPS.load(Ordering::SeqCst);
            let lp = log.clone();
            let probe = world.spawn_system_command(move |mut sev: SystemEvent<Payload>| { lp.lock().unwrap().push(if sev.take().is_ok() { 9003 } else { 50 }); });
            world.queue_probe(probe);
            expected = vec![50];
            extra_ok = drops == 1 && world.get_entity(plain).is_ok();
            note = format!("\"payload_drops\":{},\"expected_drops\":1", drops);
        }
        // a chain of n distinct system commands, each running the next: every one runs (no depth at which commands are dropped)
        "deep_tree" =>
        {
            let n: u32 = args.get(1).and_then(|s| s.parse().ok()).unwrap_or(200);
            let mut next: Option<SystemCommand> = None;
            for i in (0..n).rev()
            {
                let l = log.clone();
                let nx = next;
                let cmd = world.spawn_system_command(move |mut c: Commands| { l.lock().unwrap().push(i); if let Some(nx) = nx { c.queue(nx); } });
                next = Some(cmd);
            }
            let first = next.unwrap();
            world.queue_probe(first);
            expected = (0..n).collect();
            if log.lock().unwrap().len() == n as usize && *log.lock().unwrap() == expected { let mut g = log.lock().unwrap(); g.clear(); g.push(n); expected = vec![n]; }
        }
        // a broadcast with two listeners; the first listener's run despawns the second reactor before its turn: the second
        // does not run, and the payload is still released exactly once by the end of the tree
        "vanished_listener" =>
        {
            let l1 = log.clone();
            let victim: Arc<Mutex<Option<Entity>>> = Arc::new(Mutex::new(None));
            let v1 = victim.clone();
            world.react(|rc| rc.on_persistent(broadcast::<Payload>(), move |ev: BroadcastEvent<Payload>, mut c: Commands|
            {
                if let Ok(p) = ev.try_read() { l1.lock().unwrap().push(10 + p.0); }
                if let Some(v) = *v1.lock().unwrap() { c.entity(v).despawn(); }
            }));
            let l2 = log.clone();
            let second = world.react(|rc| rc.on_persistent(broadcast::<Payload>(), move |ev: BroadcastEvent<Payload>| { if ev.try_read().is_ok() { l2.lock().unwrap().push(20); } }));
            *victim.lock().unwrap() = Some(*second);
            world.react(|rc| rc.broadcast(Payload(5)));
            let drops = DROPS.load(Ordering::SeqCst);
            expected = vec![15];
            extra_ok = drops == 1;
            note = format!("\"payload_drops_after_tree\":{},\"expected_drops\":1", drops);
        }
        // an entity watched by persistent reactor X is despawned outside any tree; the root command of the next tree targets X
        // itself: X runs for the despawn AND for the command (the polled reaction is not dropped)
        "poll_same_system" =>
        {
            let l = log.clone();
            let watched = world.spawn_empty().id();
            let x = world.react(|rc| rc.on_persistent(despawn(watched), move |ev: DespawnEvent| { l.lock().unwrap().push(if ev.get().is_ok() { 7 } else { 1 }); }));
            world.despawn(watched);
            world.queue_probe(x);
            let mut v = log.lock().unwrap().clone();
            v.sort();
            *log.lock().unwrap() = v;
            expected = vec![1, 7];
        }
        // tree 1: a one-off reactor fires (its command despawns itself at the root).  tree 2: a system command sends itself an
        // event (postponed: it is running) and despawns itself: the event can never be delivered, so its payload must be
        // released by the end of the tree - whatever trees ran before on this world
        "self_despawn_residue" =>
        {
            let l = log.clone();
            world.react(|rc| rc.once(broadcast::<u32>(), move || { l.lock().unwrap().push(1); }));
            world.react(|rc| rc.broadcast(0u32));
            let l2 = log.clone();
            let cell: Arc<Mutex<Option<SystemCommand>>> = Arc::new(Mutex::new(None));
            let cc = cell.clone();
            let x = world.spawn_system_command(move |mut c: Commands| {
                let me = cc.lock().unwrap().unwrap();
                l2.lock().unwrap().push(2);
                c.send_system_event(me, Payload(9));
                c.entity(*me).despawn();
            });
            *cell.lock().unwrap() = Some(x);
            world.queue_probe(x);
            let drops = DROPS.load(Ordering::SeqCst);
            expected = vec![1, 2];
            extra_ok = drops == 1;
            note = format!("\"payload_drops_after_second_tree\":{},\"expected_drops\":1", drops);
        }
        // X runs in-line under a still-executing ancestor A; X's run re-triggers X itself (postponed) and THEN sends a command
        // to A (postponed too): when X finishes, its own postponed command runs at once although it is not the last buffer entry
        "nested_self_then_ancestor" =>
        {
            let cells: Arc<Mutex<[Option<SystemCommand>; 2]>> = Arc::new(Mutex::new([None, None]));
            let (l, cc, n) = (log.clone(), cells.clone(), Arc::new(AtomicUsize::new(0)));
            let a = world.spawn_system_command(move |mut c: Commands| {
                let k = n.fetch_add(1, Ordering::SeqCst) + 1;
                l.lock().unwrap().push(k as u32);
                if k == 1 { c.queue(cc.lock().unwrap()[1].unwrap()); }
            });
            let (l, cc, n) = (log.clone(), cells.clone(), Arc::new(AtomicUsize::new(0)));
            let x = world.spawn_system_command(move |mut c: Commands| {
                let k = n.fetch_add(1, Ordering::SeqCst) + 1;
                l.lock().unwrap().push(10 + k as u32);
                if k == 1 { let g = cc.lock().unwrap(); c.queue(g[1].unwrap()); c.queue(g[0].unwrap()); }
            });
            *cells.lock().unwrap() = [Some(a), Some(x)];
            world.queue_probe(a);
            expected = vec![1, 11, 12, 2];
        }
        // two busy ancestors X and A, each with a postponed command outstanding; A's was postponed from inside a nested REPLAY
        // of a third system B: it still runs as soon as A finishes (before X's)
        "nested_replay_ancestor" =>
        {
            let cells: Arc<Mutex<[Option<SystemCommand>; 3]>> = Arc::new(Mutex::new([None, None, None]));
            let (l, cc, n) = (log.clone(), cells.clone(), Arc::new(AtomicUsize::new(0)));
            let x = world.spawn_system_command(move |mut c: Commands| {
                let k = n.fetch_add(1, Ordering::SeqCst) + 1;
                l.lock().unwrap().push(20 + k as u32);
                if k == 1 { let g = cc.lock().unwrap(); c.queue(g[0].unwrap()); c.queue(g[1].unwrap()); }
            });
            let (l, cc, n) = (log.clone(), cells.clone(), Arc::new(AtomicUsize::new(0)));
            let a = world.spawn_system_command(move |mut c: Commands| {
                let k = n.fetch_add(1, Ordering::SeqCst) + 1;
                l.lock().unwrap().push(k as u32);
                if k == 1 { c.queue(cc.lock().unwrap()[2].unwrap()); }
            });
            let (l, cc, n) = (log.clone(), cells.clone(), Arc::new(AtomicUsize::new(0)));
            let b = world.spawn_system_command(move |mut c: Commands| {
                let k = n.fetch_add(1, Ordering::SeqCst) + 1;
                l.lock().unwrap().push(10 + k as u32);
                let g = cc.lock().unwrap();
                if k == 1 { c.queue(g[2].unwrap()); } else if k == 2 { c.queue(g[1].unwrap()); }
            });
            *cells.lock().unwrap() = [Some(x), Some(a), Some(b)];
            world.queue_probe(x);
            expected = vec![21, 1, 11, 12, 2, 22];
        }
        _ => { eprintln!("unknown runner scenario {}", what); std::process::exit(3); }
    }
    let v = log.lock().unwrap().clone();
    let ok = v == expected && extra_ok;
    Outcome{ ok, json: format!("{{\"scenario\":\"runner\",\"what\":\"{}\",\"ok\":{},\"observed\":{{\"runs\":{}{}{}}},\"expected\":{{\"runs\":{}}}}}",
        what, ok, fmt_list(&v), if note.is_empty() { "" } else { "," }, note, fmt_list(&expected)) }
}

trait QueueProbe { fn queue_probe(&mut self, cmd: SystemCommand); }
impl QueueProbe for World
{
    /// applies one system command from outside any tree
    fn queue_probe(&mut self, cmd: SystemCommand) { self.commands().queue(cmd); self.flush(); }
}
