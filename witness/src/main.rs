//! Engine R: public-API scenarios on the real crate and real Bevy.
//! usage: witness <scenario> [args...]   -> prints one JSON line {"scenario":..,"ok":bool,"observed":..,"expected":..}
//! exit 0 = scenario ran and property-level expectation held; exit 1 = expectation violated (reproduced);
//! exit 3 = usage error.
use bevy::prelude::*;
use bevy_cobweb::prelude::*;
use std::sync::{Arc, Mutex};

mod fifo;
mod revoke_dup;
mod revoke_pairs;
mod entry;
mod dead_target;
mod runner;
mod once;
mod state;
mod spawned;

fn main()
{
    let args: Vec<String> = std::env::args().skip(1).collect();
    if args.is_empty() { eprintln!("usage: witness <scenario> [args]"); std::process::exit(3); }
    let res = match args[0].as_str()
    {
        "fifo" => fifo::run(&args[1..]),
        "revoke_dup" => revoke_dup::run(&args[1..]),
        "revoke_pairs" => revoke_pairs::run(&args[1..]),
        "entry" => entry::run(&args[1..]),
        "dead_target" => dead_target::run(&args[1..]),
        "runner" => runner::run(&args[1..]),
        "once" => once::run(&args[1..]),
        "state" => state::run(&args[1..]),
        "spawned" => spawned::run(&args[1..]),
        _ => { eprintln!("unknown scenario {}", args[0]); std::process::exit(3); }
    };
    println!("{}", res.json);
    std::process::exit(if res.ok { 0 } else { 1 });
}

pub struct Outcome { pub ok: bool, pub json: String }

pub type Log = Arc<Mutex<Vec<u32>>>;

pub fn new_app() -> App
{
    let mut app = App::new();
    app.add_plugins(ReactPlugin);
    app
}

pub fn fmt_list(v: &[u32]) -> String
{
    let s: Vec<String> = v.iter().map(|x| x.to_string()).collect();
    format!("[{}]", s.join(","))
}
