"""Registry of solver obligations: which Kani harness decides which necessary condition of which property.

Each obligation:
  id        short stable id
  engine    "k1" (real bevy types, no World) | "k2" (typed environment model of bevy)
  harness   Kani pretty name (module path inside the generated crate)
  props     property ids the obligation is a necessary condition of
  expect    "pass" | "fail" (vacuity twin: its final assert(false) must come back violated)
  tiers     subset of {"quick","thorough"} (default both)
  functions the real functions symbolically executed
  src       real source file(s) the functions live in
  bounds    stated bounds (what lies outside is outside the claim)
  claim     the obligation in words
  witness   optional native public-API scenario (engine R) able to reproduce a violation of this obligation:
            list of argv templates for /verif/witness; run only when the harness fails
"""

M = "react::"

def _trk(prefix, mod, typ, src, kinds, drain=True):
    step_claim = (f"{typ}: from ANY pending list within the bound, start(r) exposes the oldest entry prepared for r, "
                  "removes exactly that entry, keeps all others in order; end() clears the reacting flag "
                  "(inductive step: covers histories of any length)")
    wit = [["fifo", k, "4"] for k in kinds] + [["fifo", k, "3"] for k in kinds]
    out = [
        dict(id=f"{prefix}.step", engine="k1", harness=f"{M}{mod}::verif_h::{prefix}_tracker_step",
             props=["C12", "C03", "C04", "C11"], expect="pass",
             functions=[f"{typ}::prepare", f"{typ}::start", f"{typ}::end", f"{typ}::is_reacting"], src=[src],
             bounds="pending list <= 4 entries (quick) / <= 6 (thorough); 3 system ids; distinct payload tags; "
                    "Vec pre-reserved (no reallocation inside the harness)",
             claim=step_claim, witness=wit),
        dict(id=f"{prefix}.witness", engine="k1", harness=f"{M}{mod}::verif_h::{prefix}_tracker_witness",
             props=["C12", "C03", "C04", "C11"], expect="fail", functions=[], src=[src], bounds="-",
             claim="vacuity twin: prepare/start/end path is reachable (final assert(false) must be violated)"),
    ]
    if drain:
        out.append(
        dict(id=f"{prefix}.drain3", engine="k1", harness=f"{M}{mod}::verif_h::{prefix}_tracker_drain3",
             props=["C12", "C03"], expect="pass",
             functions=[f"{typ}::prepare", f"{typ}::start", f"{typ}::end"], src=[src],
             bounds="3 deliveries for one system interleaved with 2 deliveries for another; payload ids symbolic (< 1000)",
             claim=f"{typ}: three deliveries prepared for one system are claimed 1,2,3 by its successive runs "
                   "(behavioural, no private fields)", witness=wit))
    return out


OBLIGATIONS = []
OBLIGATIONS += _trk("sysevt", "system_event_reader", "SystemEventAccessTracker", "src/react/system_event_reader.rs",
                    ["system_event"])
OBLIGATIONS += _trk("evt", "event_readers", "EventAccessTracker", "src/react/event_readers.rs",
                    ["broadcast", "entity_event"])
OBLIGATIONS += _trk("ent", "entity_reaction_readers", "EntityReactionAccessTracker",
                    "src/react/entity_reaction_readers.rs", ["mutation", "entity_event"], drain=False)
OBLIGATIONS += _trk("desp", "despawn_reader", "DespawnAccessTracker", "src/react/despawn_reader.rs", ["despawn"],
                    drain=False)   # the 5-run drain needs > 12 GB / 200 s for the 3-field trackers (measured)

OBLIGATIONS += [
    dict(id="sysevt.take_once", engine="k1", harness=f"{M}system_event_reader::verif_h::sysevt_take_once",
         props=["C04"], expect="pass", functions=["SystemEventData::new", "SystemEventData::take"],
         src=["src/react/system_event_reader.rs"], bounds="payload = any u32; 3 successive takes",
         claim="a system-event payload is handed out by the first take() only"),
    dict(id="desp.handle_lifetime", engine="k1", harness=f"{M}despawn_reader::verif_h::desp_tracker_handle_lifetime",
         props=["C07"], expect="pass",
         functions=["DespawnAccessTracker::prepare", "DespawnAccessTracker::start", "DespawnAccessTracker::end",
                    "AutoDespawner::prepare", "AutoDespawnSignal::clone", "Drop for AutoDespawnSignalInner"],
         src=["src/react/despawn_reader.rs", "src/ecs/auto_despawn.rs"],
         bounds="1 or 2 despawn reactions in flight for one ref-counted reactor",
         claim="the handle carried by a despawn reaction keeps the reactor alive while pending and while running; "
               "end() of the last one releases it and the reactor is sent to the despawner exactly once"),

    # ---- auto_despawn (C10, C07)
    dict(id="autodespawn.refcount", engine="k1", harness="ecs::auto_despawn::verif_h::autodespawn_refcount_exact",
         props=["C10", "C07"], expect="pass",
         functions=["AutoDespawner::new", "AutoDespawner::prepare", "AutoDespawner::try_recv", "AutoDespawnSignal::new",
                    "AutoDespawnSignal::clone", "AutoDespawnSignal::entity", "Drop for AutoDespawnSignalInner"],
         src=["src/ecs/auto_despawn.rs"],
         bounds="2 entities; entity A: original + <=3 clones (quick) / <=5 (thorough), entity B: 1 signal; every "
                "drop order and interleaving; single thread",
         claim="an entity is receivable by the collector iff all clones of its signal have been dropped, and then "
               "exactly once; other entities' signals do not interfere"),
    dict(id="autodespawn.clone_silent", engine="k1", harness="ecs::auto_despawn::verif_h::autodespawn_clone_is_silent",
         props=["C10", "C07"], expect="pass", functions=["AutoDespawnSignal::clone", "Drop for AutoDespawnSignalInner"],
         src=["src/ecs/auto_despawn.rs"], bounds="any entity index < 1000",
         claim="cloning sends nothing; dropping clone or original while another holder exists sends nothing"),
    dict(id="autodespawn.shared_channel", engine="k1",
         harness="ecs::auto_despawn::verif_h::autodespawn_despawner_clone_shares_channel",
         props=["C10"], expect="pass", functions=["AutoDespawner::clone", "AutoDespawner::prepare"],
         src=["src/ecs/auto_despawn.rs"], bounds="1 entity",
         claim="clones of the AutoDespawner resource share one channel"),
    dict(id="autodespawn.witness", engine="k1", harness="ecs::auto_despawn::verif_h::autodespawn_witness",
         props=["C10", "C07"], expect="fail", functions=[], src=["src/ecs/auto_despawn.rs"], bounds="-",
         claim="vacuity twin"),

    # ---- EntityReactors / tokens (C01, C06, C07, C16)
    dict(id="entreactors.dispatch", engine="k1", harness=f"{M}utils::verif_h::entreactors_dispatch_exact",
         props=["C01", "C05", "C16"], expect="pass",
         functions=["EntityReactors::iter_rtype", "EntityReactors::count", "EntityReactors::iter_reactors",
                    "ReactorHandle::sys_command", "PartialEq for EntityReactionType"],
         src=["src/react/utils.rs"],
         bounds="table <= 4 entries (quick) / <= 7 (thorough, spills SmallVec's inline 6); 3 reactor ids; 8 reaction "
                "types = 4 kinds x 2 type ids",
         claim="iter_rtype(t) yields exactly the reactors registered under kind AND type id t, in registration "
               "order; count(t) equals their number"),
    dict(id="entreactors.remove", engine="k1", harness=f"{M}utils::verif_h::entreactors_remove_complete_local",
         props=["C06"], expect="pass", functions=["EntityReactors::remove", "EntityReactors::count"],
         src=["src/react/utils.rs"],
         bounds="table <= 4 (quick) / <= 7 (thorough) entries, duplicates allowed; any (rtype, reactor) pair",
         claim="remove(rtype, id) deletes every entry of that reactor under that reaction type, nothing else, "
               "keeps order of survivors; second application and absent pairs are no-ops"),
    dict(id="entreactors.handles", engine="k1", harness=f"{M}utils::verif_h::entreactors_handle_conservation",
         props=["C07", "C06"], expect="pass",
         functions=["EntityReactors::remove", "Drop of EntityReactors", "ReactorHandle::clone"],
         src=["src/react/utils.rs", "src/ecs/auto_despawn.rs"],
         bounds="1-3 registrations of one ref-counted reactor + 1 persistent neighbour on one entity",
         claim="the reactor is collected exactly when its last table entry is revoked or the table is dropped with "
               "its entity, never earlier"),
    dict(id="reactortype.get_entity", engine="k1", harness=f"{M}utils::verif_h::reactortype_get_entity",
         props=["C06", "C16"], expect="pass", functions=["ReactorType::get_entity"], src=["src/react/utils.rs"],
         bounds="all 11 kinds; entity index < 200",
         claim="entity-scoped kinds report their entity, type-wide kinds report none"),
    dict(id="revoketoken.unique_entities", engine="k1", harness=f"{M}utils::verif_h::revoketoken_unique_entities",
         props=["C16"], expect="pass", functions=["RevokeToken::iter_unique_entities", "ReactorType::get_entity"],
         src=["src/react/utils.rs"], bounds="tokens of 4 entries over 3 entities and type-wide entries",
         claim="each entity named by a token is yielded exactly once (local data cleaned once per entity)"),
    dict(id="entreactors.witness", engine="k1", harness=f"{M}utils::verif_h::entreactors_witness",
         props=["C01", "C06"], expect="fail", functions=[], src=["src/react/utils.rs"], bounds="-",
         claim="vacuity twin"),

    # ---- postponement buffer (C12, C11, C02)
    dict(id="cmdqueue.cold_start", engine="k1", harness=f"{M}command_queue::verif_h::cmdqueue_cold_start",
         props=["C12", "C11", "C02"], expect="pass",
         functions=["CobwebCommandQueue::push", "CobwebCommandQueue::remove", "CobwebCommandQueue::append",
                    "CobwebCommandQueue::pop_front"], src=["src/react/command_queue.rs"],
         bounds="concrete shape (2 buffered, 1 pushed during replay, no cached buffer), symbolic payloads",
         claim="without a cached buffer remove()/append() still conserve and order commands; cached buffers are empty"),
    dict(id="cmdqueue.fifo", engine="k1", harness=f"{M}command_queue::verif_h::cmdqueue_fifo",
         props=["C12", "C11"], expect="pass", functions=["CobwebCommandQueue::push", "CobwebCommandQueue::pop_front",
                                                        "CobwebCommandQueue::append"],
         src=["src/react/command_queue.rs"], bounds="<= 3 (quick) / <= 5 (thorough) commands, symbolic length",
         claim="pop_front returns arrival order; appending an empty list changes nothing"),
    dict(id="cmdqueue.witness", engine="k1", harness=f"{M}command_queue::verif_h::cmdqueue_witness",
         props=["C12", "C11", "C02"], expect="fail", functions=[], src=["src/react/command_queue.rs"], bounds="-",
         claim="vacuity twin"),

    # ---- counters / storage / mode
    dict(id="counter.exact", engine="k1", harness=f"{M}commands::verif_h::data_entity_counter_exact",
         props=["C05"], expect="pass", functions=["DataEntityCounter::new", "DataEntityCounter::decrement",
                                                 "DataEntityCounter::is_done"],
         src=["src/react/commands.rs"], bounds="1..5 readers, 6 decrements",
         claim="is_done() first becomes true exactly at the n-th decrement"),
    dict(id="counter.no_wrap", engine="k1", harness=f"{M}commands::verif_h::data_entity_counter_no_wrap",
         props=["C05"], expect="pass", functions=["DataEntityCounter::decrement", "DataEntityCounter::is_done"],
         src=["src/react/commands.rs"], bounds="any usize count >= 2; count 0",
         claim="no wrap-around: one decrement of a count >= 2 is not done; 0 saturates"),
    dict(id="storage.take_insert", engine="k1",
         harness=f"{M}system_command_spawning::verif_h::syscmd_storage_take_insert",
         props=["C13", "C02", "C11"], expect="pass",
         functions=["SystemCommandStorage::new", "SystemCommandStorage::take", "SystemCommandStorage::insert",
                    "SystemCommandCallback::with"],
         src=["src/react/system_command_spawning.rs"], bounds="one callback",
         claim="callback absent exactly while taken; present again after insert"),
    dict(id="mode.prepare", engine="k1", harness=f"{M}react_commands::verif_h::reactormode_prepare_by_mode",
         props=["C07"], expect="pass", functions=["ReactorMode::prepare", "ReactorHandle::sys_command",
                                                 "ReactorHandle::clone"],
         src=["src/react/react_commands.rs", "src/react/utils.rs"], bounds="3 modes; any reactor index < 1000",
         claim="Persistent => plain handle never reaching the despawner; Cleanup/Revokable => ref-counted handle "
               "for exactly that reactor, collected once when the last clone is dropped"),
    dict(id="bundle.reactor_types", engine="k1", harness=f"{M}reaction_trigger::verif_h::bundle_reactor_types_in_order",
         props=["C06", "C16", "C15"], expect="pass",
         functions=["get_reactor_types", "RevokeToken::new_from", "ReactionTriggerBundle for tuples",
                    "ReactionTrigger::reactor_type (all 11 trigger kinds)"],
         src=["src/react/reaction_trigger.rs", "src/react/reaction_triggers_impl.rs", "src/react/utils.rs"],
         bounds="one nested bundle containing all 11 trigger kinds; 2 symbolic entities; empty bundle",
         claim="a token lists exactly the bundle's triggers in order with the right kind, type id and entity"),
    dict(id="bundle.entity_bundle", engine="k1", harness=f"{M}reaction_trigger::verif_h::entity_bundle_names_entity",
         props=["C16"], expect="pass", functions=["EntityTriggerBundle::new_bundle", "EntityTrigger::entity"],
         src=["src/react/reaction_trigger.rs", "src/react/reaction_triggers_impl.rs"],
         bounds="3-member entity bundle, any entity index < 100",
         claim="every member of an entity bundle names the entity it was created for"),
]


def for_property(pid, tier):
    out = []
    for o in OBLIGATIONS:
        if pid in o["props"] and tier in o.get("tiers", ["quick", "thorough"]):
            out.append(o)
    return out
