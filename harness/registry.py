"""Registry of solver obligations: which Kani harness decides which necessary condition of which property.

Each obligation:
  id        short stable id
  engine    "k1" (real bevy types, no World) | "k2" (typed environment model of bevy)
  harness   Kani pretty name (module path inside the generated crate)
  props     property ids the obligation is a necessary condition of
  expect    "pass" | "fail" (vacuity twin: its final assert(false) must come back violated)
  tiers     subset of {"quick","thorough"} (default both)
  functions the real functions symbolically executed
  src       real source file(s) the functions live in
  bounds    stated bounds (what lies outside is outside the claim)
  claim     the obligation in words
  witness   optional native public-API scenario (engine R) able to reproduce a violation of this obligation:
            list of argv templates for /verif/witness; run only when the harness fails
"""

import os, re

M = "react::"

def _trk(prefix, mod, typ, src, kinds, drain=True):
    step_claim = (f"{typ}: from ANY pending list within the bound, start(r) exposes the oldest entry prepared for r, "
                  "removes exactly that entry, keeps all others in order; end() clears the reacting flag "
                  "(inductive step: covers histories of any length)")
    wit = [["fifo", k, "4"] for k in kinds] + [["fifo", k, "3"] for k in kinds]
    out = [
        dict(id=f"{prefix}.step", engine="k1", harness=f"{M}{mod}::verif_h::{prefix}_tracker_step",
             props=["C12", "C03", "C04", "C11"], expect="pass",
             functions=[f"{typ}::prepare", f"{typ}::start", f"{typ}::end", f"{typ}::is_reacting"], src=[src],
             bounds="pending list <= 4 entries; 3 system ids; distinct payload tags; "
                    "Vec pre-reserved (no reallocation inside the harness)",
             claim=step_claim, witness=wit),
        dict(id=f"{prefix}.witness", engine="k1", harness=f"{M}{mod}::verif_h::{prefix}_tracker_witness",
             props=["C12", "C03", "C04", "C11"], expect="fail", functions=[], src=[src], bounds="-",
             claim="vacuity twin: prepare/start/end path is reachable (final assert(false) must be violated)"),
    ]
    if drain:
        out.append(
        dict(id=f"{prefix}.drain3", engine="k1", harness=f"{M}{mod}::verif_h::{prefix}_tracker_drain3",
             props=["C12", "C03"], expect="pass",
             functions=[f"{typ}::prepare", f"{typ}::start", f"{typ}::end"], src=[src],
             bounds="3 deliveries for one system interleaved with 2 deliveries for another; payload ids symbolic (< 1000)",
             claim=f"{typ}: three deliveries prepared for one system are claimed 1,2,3 by its successive runs "
                   "(behavioural, no private fields)", witness=wit))
    return out


OBLIGATIONS = []
OBLIGATIONS += _trk("sysevt", "system_event_reader", "SystemEventAccessTracker", "src/react/system_event_reader.rs",
                    ["system_event"])
OBLIGATIONS += _trk("evt", "event_readers", "EventAccessTracker", "src/react/event_readers.rs",
                    ["broadcast", "entity_event"])
OBLIGATIONS += _trk("ent", "entity_reaction_readers", "EntityReactionAccessTracker",
                    "src/react/entity_reaction_readers.rs", ["mutation", "entity_event"], drain=False)
for _o in OBLIGATIONS:
    if _o["id"] in ("sysevt.step", "evt.step", "ent.step", "desp.step"):
        _o["props"].append("C09")      # which delivery a replayed run takes effect as is decided by the tracker's per-system FIFO
for _o in OBLIGATIONS:
    if _o["id"] in ("ent.step", "ent.witness"):
        _o["props"].append("C16")      # EntityLocal picks the local data of the entity this tracker exposes: one shared system, several entities
OBLIGATIONS += _trk("desp", "despawn_reader", "DespawnAccessTracker", "src/react/despawn_reader.rs", ["despawn"],
                    drain=False)   # the 5-run drain needs > 12 GB / 200 s for the 3-field trackers (measured)

OBLIGATIONS += [
    dict(id="sysevt.take_once", engine="k1", harness=f"{M}system_event_reader::verif_h::sysevt_take_once",
         props=["C04"], expect="pass", functions=["SystemEventData::new", "SystemEventData::take"],
         src=["src/react/system_event_reader.rs"], bounds="payload = any u32; 3 successive takes",
         claim="a system-event payload is handed out by the first take() only"),
    dict(id="desp.handle_lifetime", engine="k1", harness=f"{M}despawn_reader::verif_h::desp_tracker_handle_lifetime",
         props=["C07"], expect="pass",
         functions=["DespawnAccessTracker::prepare", "DespawnAccessTracker::start", "DespawnAccessTracker::end",
                    "AutoDespawner::prepare", "AutoDespawnSignal::clone", "Drop for AutoDespawnSignalInner"],
         src=["src/react/despawn_reader.rs", "src/ecs/auto_despawn.rs"],
         bounds="1 or 2 despawn reactions in flight for one ref-counted reactor",
         claim="the handle carried by a despawn reaction keeps the reactor alive while pending and while running; "
               "end() of the last one releases it and the reactor is sent to the despawner exactly once"),

    # ---- auto_despawn (C10, C07)
    dict(id="autodespawn.refcount", engine="k1", harness="ecs::auto_despawn::verif_h::autodespawn_refcount_exact",
         props=["C10", "C07"], expect="pass",
         functions=["AutoDespawner::new", "AutoDespawner::prepare", "AutoDespawner::try_recv", "AutoDespawnSignal::new",
                    "AutoDespawnSignal::clone", "AutoDespawnSignal::entity", "Drop for AutoDespawnSignalInner"],
         src=["src/ecs/auto_despawn.rs"],
         bounds="2 entities; entity A: original + <=3 clones, entity B: 1 signal; every "
                "drop order and interleaving; single thread",
         claim="an entity is receivable by the collector iff all clones of its signal have been dropped, and then "
               "exactly once; other entities' signals do not interfere"),
    dict(id="autodespawn.clone_silent", engine="k1", harness="ecs::auto_despawn::verif_h::autodespawn_clone_is_silent",
         props=["C10", "C07"], expect="pass", functions=["AutoDespawnSignal::clone", "Drop for AutoDespawnSignalInner"],
         src=["src/ecs/auto_despawn.rs"], bounds="any entity index < 1000",
         claim="cloning sends nothing; dropping clone or original while another holder exists sends nothing"),
    dict(id="autodespawn.shared_channel", engine="k1",
         harness="ecs::auto_despawn::verif_h::autodespawn_despawner_clone_shares_channel",
         props=["C10"], expect="pass", functions=["AutoDespawner::clone", "AutoDespawner::prepare"],
         src=["src/ecs/auto_despawn.rs"], bounds="1 entity",
         claim="clones of the AutoDespawner resource share one channel"),
    dict(id="autodespawn.witness", engine="k1", harness="ecs::auto_despawn::verif_h::autodespawn_witness",
         props=["C10", "C07"], expect="fail", functions=[], src=["src/ecs/auto_despawn.rs"], bounds="-",
         claim="vacuity twin"),

    # ---- EntityReactors / tokens (C01, C06, C07, C16)
    dict(id="entreactors.dispatch", engine="k1", harness=f"{M}utils::verif_h::entreactors_dispatch_exact",
         props=["C01", "C05", "C16"], expect="pass",
         functions=["EntityReactors::iter_rtype", "EntityReactors::count", "EntityReactors::iter_reactors",
                    "ReactorHandle::sys_command", "PartialEq for EntityReactionType"],
         src=["src/react/utils.rs"],
         bounds="table <= 3 entries; 3 reactor ids; 8 reaction "
                "types = 4 kinds x 2 type ids",
         claim="iter_rtype(t) yields exactly the reactors registered under kind AND type id t, in registration "
               "order; count(t) equals their number"),
    dict(id="entreactors.remove", engine="k1", harness=f"{M}utils::verif_h::entreactors_remove_complete_local",
         props=["C06"], expect="pass", functions=["EntityReactors::remove", "EntityReactors::count"],
         src=["src/react/utils.rs"],
         bounds="table <= 3 entries, duplicates allowed; any (rtype, reactor) pair",
         claim="remove(rtype, id) deletes every entry of that reactor under that reaction type, nothing else, "
               "keeps order of survivors; second application and absent pairs are no-ops"),
    dict(id="entreactors.handles", engine="k1", harness=f"{M}utils::verif_h::entreactors_handle_conservation",
         props=["C07", "C06"], expect="pass",
         functions=["EntityReactors::remove", "Drop of EntityReactors", "ReactorHandle::clone"],
         src=["src/react/utils.rs", "src/ecs/auto_despawn.rs"],
         bounds="1-3 registrations of one ref-counted reactor + 1 persistent neighbour on one entity",
         claim="the reactor is collected exactly when its last table entry is revoked or the table is dropped with "
               "its entity, never earlier"),
    dict(id="reactortype.get_entity", engine="k1", harness=f"{M}utils::verif_h::reactortype_get_entity",
         props=["C06", "C16"], expect="pass", functions=["ReactorType::get_entity"], src=["src/react/utils.rs"],
         bounds="all 11 kinds; entity index < 200",
         claim="entity-scoped kinds report their entity, type-wide kinds report none"),
    dict(id="revoketoken.unique_entities", engine="k1", harness=f"{M}utils::verif_h::revoketoken_unique_entities",
         props=["C16"], expect="pass", functions=["RevokeToken::iter_unique_entities", "ReactorType::get_entity"],
         src=["src/react/utils.rs"], bounds="tokens of 4 entries over 3 entities and type-wide entries",
         claim="each entity named by a token is yielded exactly once (local data cleaned once per entity)"),
    dict(id="entreactors.witness", engine="k1", harness=f"{M}utils::verif_h::entreactors_witness",
         props=["C01", "C06"], expect="fail", functions=[], src=["src/react/utils.rs"], bounds="-",
         claim="vacuity twin"),

    # ---- postponement buffer (C12, C11, C02)
    dict(id="cmdqueue.cold_start", engine="k1", harness=f"{M}command_queue::verif_h::cmdqueue_cold_start",
         props=["C12", "C11", "C02"], expect="pass",
         functions=["CobwebCommandQueue::push", "CobwebCommandQueue::remove", "CobwebCommandQueue::append",
                    "CobwebCommandQueue::pop_front"], src=["src/react/command_queue.rs"],
         bounds="concrete shape (2 buffered, 1 pushed during replay, no cached buffer), symbolic payloads",
         claim="without a cached buffer remove()/append() still conserve and order commands; cached buffers are empty"),
    dict(id="cmdqueue.fifo", engine="k1", harness=f"{M}command_queue::verif_h::cmdqueue_fifo",
         props=["C12", "C11"], expect="pass", functions=["CobwebCommandQueue::push", "CobwebCommandQueue::pop_front",
                                                        "CobwebCommandQueue::append"],
         src=["src/react/command_queue.rs"], bounds="<= 3 commands, symbolic length",
         claim="pop_front returns arrival order; appending an empty list changes nothing"),
    dict(id="cmdqueue.witness", engine="k1", harness=f"{M}command_queue::verif_h::cmdqueue_witness",
         props=["C12", "C11", "C02"], expect="fail", functions=[], src=["src/react/command_queue.rs"], bounds="-",
         claim="vacuity twin"),

    # ---- counters / storage / mode
    dict(id="counter.exact", engine="k1", harness=f"{M}commands::verif_h::data_entity_counter_exact",
         props=["C05"], expect="pass", functions=["DataEntityCounter::new", "DataEntityCounter::decrement",
                                                 "DataEntityCounter::is_done"],
         src=["src/react/commands.rs"], bounds="1..5 readers, 6 decrements",
         claim="is_done() first becomes true exactly at the n-th decrement"),
    dict(id="counter.no_wrap", engine="k1", harness=f"{M}commands::verif_h::data_entity_counter_no_wrap",
         props=["C05"], expect="pass", functions=["DataEntityCounter::decrement", "DataEntityCounter::is_done"],
         src=["src/react/commands.rs"], bounds="any usize count >= 2; count 0",
         claim="no wrap-around: one decrement of a count >= 2 is not done; 0 saturates"),
    dict(id="storage.take_insert", engine="k1",
         harness=f"{M}system_command_spawning::verif_h::syscmd_storage_take_insert",
         props=["C13", "C02", "C11"], expect="pass",
         functions=["SystemCommandStorage::new", "SystemCommandStorage::take", "SystemCommandStorage::insert",
                    "SystemCommandCallback::with"],
         src=["src/react/system_command_spawning.rs"], bounds="one callback",
         claim="callback absent exactly while taken; present again after insert"),
    dict(id="mode.prepare", engine="k1", harness=f"{M}react_commands::verif_h::reactormode_prepare_by_mode",
         props=["C07"], expect="pass", functions=["ReactorMode::prepare", "ReactorHandle::sys_command",
                                                 "ReactorHandle::clone"],
         src=["src/react/react_commands.rs", "src/react/utils.rs"], bounds="3 modes; any reactor index < 1000",
         claim="Persistent => plain handle never reaching the despawner; Cleanup/Revokable => ref-counted handle "
               "for exactly that reactor, collected once when the last clone is dropped"),
    dict(id="bundle.reactor_types", engine="k1", harness=f"{M}reaction_trigger::verif_h::bundle_reactor_types_in_order",
         props=["C06", "C16", "C15"], expect="pass",
         functions=["get_reactor_types", "RevokeToken::new_from", "ReactionTriggerBundle for tuples",
                    "ReactionTrigger::reactor_type (all 11 trigger kinds)"],
         src=["src/react/reaction_trigger.rs", "src/react/reaction_triggers_impl.rs", "src/react/utils.rs"],
         bounds="one nested bundle containing all 11 trigger kinds; 2 symbolic entities; empty bundle",
         claim="a token lists exactly the bundle's triggers in order with the right kind, type id and entity"),
    dict(id="bundle.entity_bundle", engine="k1", harness=f"{M}reaction_trigger::verif_h::entity_bundle_names_entity",
         props=["C16"], expect="pass", functions=["EntityTriggerBundle::new_bundle", "EntityTrigger::entity"],
         src=["src/react/reaction_trigger.rs", "src/react/reaction_triggers_impl.rs"],
         bounds="3-member entity bundle, any entity index < 100",
         claim="every member of an entity bundle names the entity it was created for"),
]


# --------------------------------------------------------------------------------------------------------------
# engine K2: the same real source compiled against the typed environment model /verif/envstub/bevy
# --------------------------------------------------------------------------------------------------------------
RC = "react::react_cache::verif_h::"
RC_SRC = ["src/react/react_cache.rs", "src/react/utils.rs", "src/react/commands.rs"]


def k2(id, harness, props, functions, src, bounds, claim, tiers=("quick", "thorough"), expect="pass", witness=None, unwindset=None,
       fp_restrict=None, stubs=None, no_native_playback=False):
    d = dict(id=id, engine="k2", harness=harness, props=list(props), expect=expect, functions=functions, src=src,
             bounds=bounds, claim=claim, tiers=list(tiers))
    if witness:
        d["witness"] = witness
    if unwindset:
        d["unwindset"] = unwindset
    if fp_restrict:
        d["fp_restrict"] = fp_restrict
    if stubs:
        d["stubs"] = stubs
    if no_native_playback:
        d["no_native_playback"] = True
    return d


_BC = "ReactCache::schedule_broadcast_reaction: from a directly written broadcast table ({}) exactly one " \
      "BroadcastEvent reaction per registration of THIS event type is queued, in registration order, all sharing one " \
      "data entity whose reader counter equals their number and which holds the event's payload; with no listener " \
      "nothing is queued and no data entity is reserved"
for (ka, kb, tiers) in [(2, 1, ("quick", "thorough")), (0, 2, ("quick", "thorough")), (3, 2, ("thorough",)),
                        (1, 0, ("thorough",)), (0, 0, ("thorough",))]:
    OBLIGATIONS.append(k2(f"rc.broadcast_{ka}_{kb}", f"{RC}rc_broadcast_{ka}_{kb}", ["C01", "C05", "C03"],
                          ["ReactCache::schedule_broadcast_reaction", "DataEntityCounter::new", "BroadcastEventData::new",
                           "ReactorHandle::sys_command"], RC_SRC + ["src/react/event_readers.rs"],
                          f"shape: {ka} listeners of the event type, {kb} of another type; reactor ids symbolic (4 values); payload any u8",
                          _BC.format(f"{ka}+{kb} entries"), tiers))
OBLIGATIONS.append(k2("rc.broadcast_witness", f"{RC}rc_broadcast_witness", ["C01", "C05"], [], RC_SRC, "-", "vacuity twin",
                      expect="fail"))
for (ka, kb, tiers) in [(2, 1, ("quick", "thorough")), (0, 1, ("thorough",)), (3, 0, ("thorough",))]:
    OBLIGATIONS.append(k2(f"rc.resource_{ka}_{kb}", f"{RC}rc_resource_{ka}_{kb}", ["C01"],
                          ["ReactCache::schedule_resource_mutation_reaction"], RC_SRC,
                          f"shape: {ka} listeners of the resource type, {kb} of another, 1 broadcast listener keyed by the same type id; reactor ids symbolic",
                          "exactly one Resource reaction per registration of this resource type, in order; other resource "
                          "types and other tables contribute nothing", tiers))
for (ne, ka, kb, dead, tiers) in [(2, 1, 1, False, ("quick", "thorough")), (1, 0, 1, False, ("thorough",)),
                                  (0, 2, 0, False, ("thorough",)), (0, 0, 1, False, ("quick", "thorough"))]:
    OBLIGATIONS.append(k2(f"rc.entity_event_{ne}_{ka}_{kb}", f"{RC}rc_entity_event_{ne}_{ka}_{kb}", ["C01", "C05", "C03"],
                          ["ReactCache::schedule_entity_event_reaction", "EntityReactors::iter_rtype", "EntityReactors::count",
                           "EntityReactors::insert"], RC_SRC + ["src/react/event_readers.rs"],
                          f"shape: target with {ne} entity-scoped listeners of the event type interleaved with a listener of another "
                          f"event type and a mutation reactor; another entity with a listener; {ka}/{kb} type-wide listeners of this/"
                          "another event type; reactor ids symbolic; payload any u8",
                          "entity-scoped listeners of the TARGET for THIS event type, then type-wide listeners, each in "
                          "registration order, carry the target; counter = their number; nothing for other entities/types/kinds", tiers))
OBLIGATIONS.append(k2("rc.entity_event_dead", f"{RC}rc_entity_event_dead_2_0_1", ["C18", "C01"],
                      ["ReactCache::schedule_entity_event_reaction"], RC_SRC,
                      "target symbolically alive or despawned before the event is applied; 2 entity-scoped listeners, 1 type-wide listener of another type",
                      "an entity event aimed at a despawned entity schedules nothing on behalf of the dead target's own listeners and "
                      "does not panic", ("quick", "thorough")))
for (nm, which, ne, ki, km, kr, tiers) in [("insertion", 0, 2, 1, 1, 1, ("quick", "thorough")), ("mutation", 1, 2, 1, 1, 1, ("quick", "thorough")),
                                          ("insertion", 0, 1, 2, 0, 1, ("thorough",)), ("mutation", 1, 0, 0, 2, 1, ("thorough",)),
                                          ("insertion", 0, 0, 0, 1, 1, ("thorough",))]:
    OBLIGATIONS.append(k2(f"rc.{nm}_{ne}_{ki}_{km}_{kr}", f"{RC}rc_{nm}_{ne}_{ki}_{km}_{kr}", ["C01", "C03", "C14"],
                          [f"ReactCache::schedule_{nm}_reaction", "schedule_entity_reaction_impl", "EntityReactors::iter_rtype"],
                          RC_SRC,
                          f"shape: target with {ne} entity-scoped {nm} reactors for the component among reactors of the other kinds and of "
                          f"another component; type-wide lists insertion/mutation/removal = {ki}/{km}/{kr} for this component, 1 each for another; ids symbolic",
                          f"a component {nm} schedules exactly the entity-scoped {nm} reactors of that component on that entity, then the "
                          f"type-wide {nm} list of that component (not the sibling lists, not other components), in order, naming the entity "
                          "and the reaction type", tiers))

_RV = ["ReactCache::revoke_broadcast_reactor", "ReactCache::revoke_resource_mutation_reactor", "ReactCache::revoke_any_entity_event_reactor"]
for (nm, ka, kb, tiers) in [("broadcast", 3, 1, ("thorough",)), ("broadcast", 2, 1, ("quick", "thorough")), ("resource", 2, 1, ("thorough",)),
                            ("any_event", 2, 1, ("thorough",))]:
    OBLIGATIONS.append(k2(f"rc.revoke_{nm}_{ka}_{kb}", f"{RC}rc_revoke_{nm}_{ka}_{kb}", ["C06", "C01"], _RV, RC_SRC,
                          f"shape: key A with {ka} entries, key B with {kb}; reactor ids and the revoked id symbolic (4 values, duplicates allowed)",
                          "the revoke removes exactly the first entry of that reactor under that key; neighbours keep their order; other keys are "
                          "untouched; an emptied key is dropped, a non-empty one never; an absent reactor changes nothing", tiers))
OBLIGATIONS.append(k2("rc.revoke_broadcast_absent_key", f"{RC}rc_revoke_broadcast_absent_key", ["C06"], _RV, RC_SRC,
                      "key A with 2 entries; revoke names a key that is not in the table", "revoking under an absent key changes nothing",
                      ("thorough",)))
OBLIGATIONS.append(k2("rc.revoke_complete", f"{RC}rc_revoke_complete_3", ["C06"], ["ReactCache::revoke_broadcast_reactor"], RC_SRC,
                      "3 entries under one key, reactor ids symbolic (duplicates allowed)",
                      "completeness as the property words it: after the revoke no registration of the reactor remains under the key "
                      "(expected to fail for duplicate registrations: finding F2)", ("quick", "thorough"),
                      witness=[["revoke_dup", "world_reactor"], ["revoke_dup", "with_twice"]]))
for (ki, km, kr, tiers) in [(1, 1, 1, ("thorough",)), (1, 0, 0, ("quick", "thorough")), (1, 0, 1, ("quick", "thorough")), (0, 1, 1, ("thorough",))]:
    OBLIGATIONS.append(k2(f"rc.revoke_component_{ki}_{km}_{kr}", f"{RC}rc_revoke_component_{ki}_{km}_{kr}", ["C06", "C01", "C07", "C14"],
                          ["ReactCache::revoke_component_reactor", "ComponentReactors::is_empty"], RC_SRC,
                          f"shape: component A with insertion/mutation/removal lists of {ki}/{km}/{kr}, component B with 1/0/0; ids, revoked id and "
                          "revoked kind symbolic",
                          "only the addressed list of the addressed component loses (at most) the revoked reactor's first entry; the component's "
                          "map entry is dropped iff all three lists are empty afterwards (sibling lists are never deleted with it)", tiers))
OBLIGATIONS.append(k2("rc.revoke_despawn_2_1", f"{RC}rc_revoke_despawn_2_1", ["C06", "C18"], ["ReactCache::revoke_despawn_reactor"], RC_SRC,
                      "two watched entities with 2/1 despawn reactors; revoked id symbolic; key = either entity or a stale id of the same index",
                      "despawn reactors are revoked per entity id (index and generation); a stale id is a no-op", ("quick", "thorough")))

def _k2h(mod, name):
    return f"{mod}::verif_h::{name}"


OBLIGATIONS += [
    k2("gc.dead_in_front", _k2h("ecs::auto_despawn", "gc_dead_id_in_front_of_released"), ["C10", "C07", "C18"],
       ["garbage_collect_entities", "AutoDespawner::try_recv", "AutoDespawner::prepare", "Drop for AutoDespawnSignalInner"],
       ["src/ecs/auto_despawn.rs"],
       "4 entities (one with a child); first released entity symbolically already despawned by other means; second symbolically released or held; third has a live clone",
       "the collector despawns exactly the released entities with their descendants, skips already-dead ids without stopping, never touches an "
       "entity with a live signal clone, and is idempotent"),
    k2("gc.parent_then_child", _k2h("ecs::auto_despawn", "gc_parent_then_child_in_one_batch"), ["C10", "C18", "C07"],
       ["garbage_collect_entities", "AutoDespawner::try_recv", "Drop for AutoDespawnSignalInner"], ["src/ecs/auto_despawn.rs"],
       "one batch: a parent, its child, an unrelated entity, released in that order",
       "an id already taken down by an earlier id of the same batch is ignored (no panic) and what was released behind it is still "
       "collected by this first collection; idempotent"),
    k2("gc.prepared_twice", _k2h("ecs::auto_despawn", "gc_entity_prepared_twice"), ["C10", "C18"],
       ["garbage_collect_entities", "AutoDespawner::prepare"], ["src/ecs/auto_despawn.rs"],
       "one batch: one entity prepared twice (both signals released), then an unrelated entity", "as gc.parent_then_child", ("thorough",)),
    k2("gc.released_and_held", _k2h("ecs::auto_despawn", "gc_released_and_held"), ["C10", "C07", "C18"],
       ["garbage_collect_entities", "AutoDespawner::try_recv", "AutoDespawner::prepare", "Drop for AutoDespawnSignalInner"],
       ["src/ecs/auto_despawn.rs"],
       "4 entities (one with a child); first released entity symbolically already despawned by other means; second symbolically released or held; third has a live clone",
       "the collector despawns exactly the released entities with their descendants, skips already-dead ids without stopping, never touches an "
       "entity with a live signal clone, and is idempotent"),
    k2("gc.all_released", _k2h("ecs::auto_despawn", "gc_all_released"), ["C10", "C07", "C18"],
       ["garbage_collect_entities", "AutoDespawner::try_recv", "AutoDespawner::prepare", "Drop for AutoDespawnSignalInner"],
       ["src/ecs/auto_despawn.rs"],
       "4 entities (one with a child); first released entity symbolically already despawned by other means; second symbolically released or held; third has a live clone",
       "the collector despawns exactly the released entities with their descendants, skips already-dead ids without stopping, never touches an "
       "entity with a live signal clone, and is idempotent"),
    k2("despawn.register_dead", _k2h("react::reaction_triggers_impl", "despawn_register_dead_entity"), ["C08", "C18", "C07"],
       ["register_despawn_reactor", "ReactCache::register_despawn_reactor", "ReactCache::despawn_sender"],
       ["src/react/reaction_triggers_impl.rs", "src/react/react_cache.rs"],
       "watched entity symbolically dead / alive without tracker / alive with a tracker but no map entry; ref-counted handle",
       "dead entity: nothing stored, handle released (reactor collected); live entity: one handle stored, one tracker, an existing tracker "
       "is never replaced (no spurious despawn report)"),
    k2("despawn.register_fresh", _k2h("react::reaction_triggers_impl", "despawn_register_fresh_entity"), ["C08", "C18", "C07"],
       ["register_despawn_reactor", "ReactCache::register_despawn_reactor", "ReactCache::despawn_sender"],
       ["src/react/reaction_triggers_impl.rs", "src/react/react_cache.rs"],
       "watched entity symbolically dead / alive without tracker / alive with a tracker but no map entry; ref-counted handle",
       "dead entity: nothing stored, handle released (reactor collected); live entity: one handle stored, one tracker, an existing tracker "
       "is never replaced (no spurious despawn report)"),
    k2("despawn.register_existing_tracker", _k2h("react::reaction_triggers_impl", "despawn_register_keeps_existing_tracker"), ["C08", "C18", "C07"],
       ["register_despawn_reactor", "ReactCache::register_despawn_reactor", "ReactCache::despawn_sender"],
       ["src/react/reaction_triggers_impl.rs", "src/react/react_cache.rs"],
       "watched entity symbolically dead / alive without tracker / alive with a tracker but no map entry; ref-counted handle",
       "dead entity: nothing stored, handle released (reactor collected); live entity: one handle stored, one tracker, an existing tracker "
       "is never replaced (no spurious despawn report)"),
    k2("despawn.tracker_drop", _k2h("react::reaction_triggers_impl", "despawn_tracker_reports_once"), ["C08"],
       ["Drop for DespawnTracker"], ["src/react/reaction_triggers_impl.rs"], "any entity index < 50",
       "dropping the tracker reports exactly its entity, once"),
    k2("rc.despawn_dispatch_once", f"{RC}rc_despawn_dispatch_once", ["C08", "C07", "C03"], ["ReactCache::schedule_despawn_reactions"], RC_SRC,
       "2 watched entities (1 reactor each), reports: the first entity once or twice (symbolic) plus an unwatched entity",
       "one Despawn reaction per stored handle of a reported entity, carrying the entity and the moved handle; the map entry is consumed, "
       "so a repeated report yields nothing; unreported entities keep their reactors; the channel is drained"),
    k2("rc.despawn_dispatch_twice", f"{RC}rc_despawn_dispatch_reported_twice", ["C08", "C07", "C03"], ["ReactCache::schedule_despawn_reactions"], RC_SRC,
       "2 watched entities (1 reactor each), reports: the first entity once or twice (symbolic) plus an unwatched entity",
       "one Despawn reaction per stored handle of a reported entity, carrying the entity and the moved handle; the map entry is consumed, "
       "so a repeated report yields nothing; unreported entities keep their reactors; the channel is drained"),
    k2("readers.event", _k2h("react::event_readers", "event_readers_answer_only_while_reacting"), ["C03", "C04"],
       ["BroadcastEvent::try_read", "EntityEvent::try_read", "BroadcastEvent::is_empty", "EventAccessTracker::is_reacting"],
       ["src/react/event_readers.rs"],
       "data entity carrying one of {broadcast Pa, entity event Pa, broadcast Pb}; tracker flag and tracker data entity symbolic; payload any u8",
       "a broadcast / entity-event reader answers iff the tracker is reacting AND points at data of exactly its kind and type, with that "
       "event's payload and target; otherwise Err - also while the data entity is still alive for other listeners"),
    k2("readers.system_event", _k2h("react::system_event_reader", "system_event_take_once_while_reacting"), ["C03", "C04"],
       ["SystemEvent::take", "SystemEventData::take"], ["src/react/system_event_reader.rs"], "tracker flag symbolic; payload any u8",
       "take() hands out the payload only to the reacting run, and only once"),
    k2("readers.entity_reaction", _k2h("react::entity_reaction_readers", "entity_reaction_readers_match_kind_and_type"), ["C03", "C04"],
       ["InsertionEvent::get", "MutationEvent::get", "RemovalEvent::get", "ReactComponentId::from_world"],
       ["src/react/entity_reaction_readers.rs"], "tracker flag, reaction kind (4) and component type (2) symbolic; source entity < 20",
       "each reader answers iff reacting AND kind matches AND component type matches; returns the tracker's source"),
    k2("readers.despawn", _k2h("react::despawn_reader", "despawn_reader_only_while_reacting"), ["C03", "C04"],
       ["DespawnEvent::get", "DespawnEvent::is_empty"], ["src/react/despawn_reader.rs"], "tracker flag symbolic",
       "the despawn reader answers iff reacting, with the tracker's source"),
    k2("callbacks.ordinary", _k2h("ecs::callbacks", "callbacks_ordinary_system_cleanup_before_deferred"), ["C04", "C13"],
       ["RawCallbackSystem::new", "RawCallbackSystem::run_with_cleanup", "run_initialized_system"], ["src/ecs/callbacks.rs"],
       "2 runs of one ordinary system with a Local and one deferred command; body returns Ok or (symbolically) an early Err",
       "per run: body, cleanup, then the body's deferred commands; initialized exactly once; the Local continues across runs"),
    k2("callbacks.exclusive", _k2h("ecs::callbacks", "callbacks_exclusive_system_cleanup_before_deferred"), ["C04", "C13"],
       ["RawCallbackSystem::run_with_cleanup", "run_initialized_system (exclusive branch)"], ["src/ecs/callbacks.rs"],
       "2 runs of one exclusive (&mut World) system that queues one command",
       "per run: body, cleanup, then the body's queued commands; initialized exactly once"),
    k2("despawn.watched_direct", _k2h("react::reaction_triggers_impl", "watched_entity_despawned_directly"), ["C08", "C07"],
       ["Drop for DespawnTracker", "Drop of EntityReactors (ReactorHandle / AutoDespawnSignal drop glue)"],
       ["src/react/reaction_triggers_impl.rs", "src/react/utils.rs", "src/ecs/auto_despawn.rs"],
       "a watched entity carrying a tracker and an entity-scoped table with one ref-counted reactor; a second watched entity stays alive",
       "despawning the watched entity reports it exactly once and releases the reactor whose last registration lived on it exactly "
       "once; the other watched entity reports nothing", ("thorough",)),
    k2("despawn.watched_via_parent", _k2h("react::reaction_triggers_impl", "watched_entity_despawned_with_its_parent"), ["C08", "C07", "C10"],
       ["Drop for DespawnTracker", "Drop of EntityReactors (ReactorHandle / AutoDespawnSignal drop glue)"],
       ["src/react/reaction_triggers_impl.rs", "src/react/utils.rs", "src/ecs/auto_despawn.rs"],
       "as despawn.watched_direct, the watched entity being taken down by a recursive despawn of its parent",
       "a despawn caused by the owner's recursive despawn is reported exactly once, for the watched entity; its reactor is released once"),
    k2("readers.entity_local", _k2h("react::entity_reaction_readers", "entity_local_exposes_the_source_entitys_data"), ["C16", "C03"],
       ["EntityLocal::entity", "EntityLocal::get", "EntityLocal::get_mut", "EntityLocal::check", "EntityReactor::system"],
       ["src/react/entity_reaction_readers.rs", "src/react/entity_world_reactor.rs"],
       "two entities carrying local data of one entity world reactor (any two u8 values); the causing entity is symbolic",
       "during a run caused by entity X EntityLocal exposes exactly X's local data and get_mut modifies X's data only"),
    k2("callbacks.initialize_noop", _k2h("ecs::callbacks", "callbacks_initialize_after_run_is_a_noop"), ["C13"],
       ["RawCallbackSystem::initialize", "CallbackSystem::initialize", "RawCallbackSystem::run_with_cleanup"], ["src/ecs/callbacks.rs"],
       "an exclusive and an ordinary system (with a Local), each run twice with initialize() called in between; a boxed callback",
       "initialize() on a callback that has already run is a no-op: the wrapped system is initialized exactly once (Bevy rebuilds an "
       "exclusive system's parameter state on every initialize, so a forwarded second initialize would reset its Locals); the ordinary "
       "system's Local continues", witness=[["state"]]),
    k2("callbacks.boxed", _k2h("ecs::callbacks", "callbacks_boxed_system_and_empty"), ["C04", "C13"],
       ["CallbackSystem::new", "CallbackSystem::run_with_cleanup", "run_initialized_system"], ["src/ecs/callbacks.rs"],
       "an Empty callback; 2 runs of a boxed ordinary system with a Local", "Empty still runs the cleanup once; the boxed system keeps its state; "
       "body, cleanup, deferred order", ("thorough",)),
    k2("revoke.routing_dead", _k2h("react::react_commands", "revoke_routing_dead_entity_first"), ["C06", "C07", "C18"],
       ["revoke_reactor", "revoke_entity_reactor", "EntityReactors::remove", "ReactCache::revoke_broadcast_reactor"],
       ["src/react/react_commands.rs", "src/react/utils.rs", "src/react/react_cache.rs"],
       "token = [entity mutation trigger, broadcast trigger]; the entity symbolically despawned; a neighbour reactor on both keys; an unnamed "
       "trigger of the same reactor on the entity",
       "every trigger named by the token is revoked even when an earlier one names a despawned entity; neighbours and unnamed triggers survive"),
    k2("revoke.routing_live", _k2h("react::react_commands", "revoke_routing_live_entity"), ["C06", "C07", "C18"],
       ["revoke_reactor", "revoke_entity_reactor", "EntityReactors::remove", "ReactCache::revoke_broadcast_reactor"],
       ["src/react/react_commands.rs", "src/react/utils.rs", "src/react/react_cache.rs"],
       "token = [entity mutation trigger, broadcast trigger]; the entity symbolically despawned; a neighbour reactor on both keys; an unnamed "
       "trigger of the same reactor on the entity",
       "every trigger named by the token is revoked even when an earlier one names a despawned entity; neighbours and unnamed triggers survive"),
    k2("mode.persistent", _k2h("react::react_commands", "mode_prepare_persistent"), ["C07"],
       ["ReactorMode::prepare", "ReactorHandle::sys_command", "ReactorHandle::clone"], ["src/react/react_commands.rs", "src/react/utils.rs"],
       "3 modes; reactor index < 50", "persistent => plain handle never collected; cleanup/revokable => ref-counted handle collected exactly once "
       "after the last clone is dropped"),
    k2("mode.cleanup", _k2h("react::react_commands", "mode_prepare_cleanup"), ["C07"],
       ["ReactorMode::prepare", "ReactorHandle::sys_command", "ReactorHandle::clone"], ["src/react/react_commands.rs", "src/react/utils.rs"],
       "3 modes; reactor index < 50", "persistent => plain handle never collected; cleanup/revokable => ref-counted handle collected exactly once "
       "after the last clone is dropped"),
    k2("mode.revokable", _k2h("react::react_commands", "mode_prepare_revokable"), ["C07"],
       ["ReactorMode::prepare", "ReactorHandle::sys_command", "ReactorHandle::clone"], ["src/react/react_commands.rs", "src/react/utils.rs"],
       "3 modes; reactor index < 50", "persistent => plain handle never collected; cleanup/revokable => ref-counted handle collected exactly once "
       "after the last clone is dropped"),
    k2("ewr.cleanup_rule", _k2h("react::entity_world_reactor", "cleanup_reactor_data_rule"), ["C16"],
       ["cleanup_reactor_data", "EntityReactors::iter_reactors"], ["src/react/entity_world_reactor.rs", "src/react/utils.rs"],
       "entity with a registration of another reactor and (symbolically) a remaining registration of this reactor",
       "local data is removed iff no registration of this reactor remains on the entity"),
    k2("ewr.remove", _k2h("react::entity_world_reactor", "entity_reactor_remove_cleans_every_entity"), ["C16", "C06"],
       ["EntityReactor::remove", "RevokeToken::new_from", "RevokeToken::iter_unique_entities", "ReactCommands::revoke"],
       ["src/react/entity_world_reactor.rs", "src/react/utils.rs", "src/react/react_commands.rs"],
       "bundle of 3 entity triggers over 2 distinct entities; reactor resource symbolically present",
       "one revoke plus one local-data cleanup per DISTINCT entity of the bundle is queued; nothing when the reactor is missing"),
]

for (sh, tiers) in [(0, ("quick", "thorough")), (1, ("thorough",)), (2, ("quick", "thorough"))]:
    OBLIGATIONS.append(k2(f"entreactors.remove_shape{sh}", _k2h("react::utils", f"entreactors_remove_shape{sh}"), ["C06", "C01", "C16"],
                          ["EntityReactors::remove", "EntityReactors::insert", "EntityReactors::count"], ["src/react/utils.rs"],
                          "per-entity table of 3-4 entries with concrete reaction types (3 shapes) and symbolic reactor ids (3 values, duplicates "
                          "common); revoked (reaction type, reactor) symbolic",
                          "remove(rtype, id) deletes every entry of that reactor under that reaction type, nothing else; survivors keep order; "
                          "second application is a no-op", tiers))
OBLIGATIONS.append(k2("token.unique_entities", _k2h("react::utils", "token_unique_entities"), ["C16"],
                      ["RevokeToken::iter_unique_entities", "ReactorType::get_entity"], ["src/react/utils.rs"],
                      "token of 4 triggers over 2 entities and one type-wide trigger", "each named entity is yielded exactly once"))

for o in ("012", "210", "102"):
    OBLIGATIONS.append(k2(f"refcount.order_{o}", _k2h("ecs::auto_despawn", f"refcount_order_{o}"), ["C10", "C07"],
                          ["AutoDespawner::prepare", "AutoDespawner::try_recv", "AutoDespawnSignal::clone", "AutoDespawnSignal::entity",
                           "Drop for AutoDespawnSignalInner"], ["src/ecs/auto_despawn.rs"],
                          f"one entity (index < 50), original signal + 2 clones dropped in order {o}; a second entity's live signal",
                          "nothing is receivable while a holder exists; after the last drop exactly one message naming that entity",
                          ("quick", "thorough") if o != "102" else ("thorough",)))

OBLIGATIONS += [
    k2("accessors.component", _k2h("react::react_component", "react_component_accessors_trigger_exactly"), ["C14"],
       ["React::get", "React::get_noreact", "React::get_mut", "React::set_if_neq", "Deref for React"], ["src/react/react_component.rs"],
       "old and new value any u8; 1 set_if_neq + 2 get_mut calls",
       "reads and get_noreact queue nothing; get_mut queues exactly one trigger per call; set_if_neq stores, returns the old value and "
       "queues exactly one trigger iff the values differ, otherwise nothing changes"),
    k2("accessors.resource", _k2h("react::react_resource", "react_resource_accessors_trigger_exactly"), ["C14"],
       ["ReactResInner::get_mut", "ReactResInner::get_noreact", "ReactResInner::set_if_neq", "ReactCommands::trigger_resource_mutation"],
       ["src/react/react_resource.rs", "src/react/react_commands.rs"], "old and new value any u8",
       "same contract for reactive resources"),
    k2("accessors.insert", _k2h("react::react_commands", "react_commands_insert_only_on_existing_entity"), ["C14", "C18"],
       ["ReactCommands::insert"], ["src/react/react_commands.rs"], "target symbolically a live entity or a stale id; component value any u8",
       "insert queues a try_insert of React{entity, component} plus exactly one insertion trigger iff the entity exists when called; "
       "nothing for a dead id"),
    k2("syscall.spawned", _k2h("ecs::spawned_syscall", "spawned_syscall_state_and_effects"), ["C17", "C13"],
       ["spawned_syscall", "spawn_system", "spawn_system_from", "CallbackSystem::run", "CallbackSystem::run_with_cleanup"],
       ["src/ecs/spawned_syscall.rs", "src/ecs/callbacks.rs"],
       "5 calls over 2 spawned ids of one function, a stale id and an emptied (running) slot; input any u8 < 100",
       "output returned, commands applied on return, state persists per id and is independent between ids; missing or running system => Err, nothing runs"),
    k2("syscall.spawned_self_despawn", _k2h("ecs::spawned_syscall", "spawned_syscall_self_despawn_returns_output"), ["C17", "C18"],
       ["spawned_syscall"], ["src/ecs/spawned_syscall.rs", "src/ecs/callbacks.rs"], "a system that queues the despawn of its own entity; input any u8 < 100; components dropped by the despawn are leaked by the model (drop effects not the subject)",
       "the call returns Ok(output) although the system's entity is gone afterwards; its commands were applied"),
    k2("syscall.cached", _k2h("ecs::syscall", "syscall_state_per_function_type"), ["C17", "C13"],
       ["syscall", "syscall_with_validation", "WorldSyscallExt::syscall_once"], ["src/ecs/syscall.rs"],
       "5 calls over 2 function types + 1 syscall_once; input any u8 < 50",
       "state persists per function type, is independent between types, commands applied on return, validation on first use only, "
       "syscall_once uses a fresh system"),
    k2("syscall.spawned_self_despawn_direct", _k2h("ecs::spawned_syscall", "spawned_syscall_self_despawn_direct"), ["C17", "C18"],
       ["spawned_syscall", "spawn_system", "CallbackSystem::run"], ["src/ecs/spawned_syscall.rs", "src/ecs/callbacks.rs"],
       "an exclusive spawned system that removes its own entity from the world during the call; input < 100",
       "the caller still gets Ok(output), the system ran exactly once, a later call is an error and runs nothing",
       witness=[["spawned", "self_despawn"]]),
    k2("syscall.named_nested", _k2h("ecs::named_syscall", "named_syscall_nested_other_key"), ["C17", "C13"],
       ["named_syscall", "IdMappedSystems::take / insert", "run_initialized_system"], ["src/ecs/named_syscall.rs", "src/ecs/callbacks.rs"],
       "two names whose systems share input/output types; the first name's (exclusive) system calls the second name while it runs; input < 50",
       "a named system called while another named system of the same input/output types is running continues its OWN persisted "
       "state, and what it did persists after the outer call returns (keys independent and persistent across nesting)"),
    k2("syscall.named", _k2h("ecs::named_syscall", "named_syscall_state_per_key"), ["C17"],
       ["named_syscall", "SysName::new", "IdMappedSystems"], ["src/ecs/named_syscall.rs"], "3 calls with one name + 1 with another; input any u8 < 50",
       "state persists over three calls with the same key (the system is put back every time); another name is independent"),
    k2("syscall.named_direct", _k2h("ecs::named_syscall", "named_syscall_direct_unknown_then_registered"), ["C17"],
       ["named_syscall_direct", "register_named_system", "register_named_system_from", "CallbackSystem::take_initialized", "SysName::new_raw"],
       ["src/ecs/named_syscall.rs", "src/ecs/callbacks.rs"],
       "1 registered name, 3 direct calls (2 of them to unknown names); input any u8 < 50; the system queues one command per run",
       "an unknown name is an error and runs nothing; a registered name runs exactly its system, returns the output and has applied the "
       "system's commands on return"),
    k2("syscall.named_direct_two_names", _k2h("ecs::named_syscall", "named_syscall_direct_two_names"), ["C17"],
       ["named_syscall_direct", "register_named_system", "register_named_system_from"], ["src/ecs/named_syscall.rs", "src/ecs/callbacks.rs"],
       "2 registered names of one function type, 3 direct calls; input any u8 < 50",
       "names registered with the same function type keep independent, persistent state", tiers=("thorough",)),
    k2("syscall.named_register_replaces", _k2h("ecs::named_syscall", "named_syscall_register_replaces"), ["C17"],
       ["register_named_system", "register_named_system_from", "named_syscall_direct"], ["src/ecs/named_syscall.rs", "src/ecs/callbacks.rs"],
       "1 name registered twice, 3 direct calls; input any u8 < 50",
       "re-registering a name replaces its system (fresh state, documented), which then persists", tiers=("thorough",)),
    k2("syscall.named_commands", _k2h("ecs::named_syscall", "named_syscall_commands_applied_on_return"), ["C17"],
       ["named_syscall", "IdMappedSystems"], ["src/ecs/named_syscall.rs"], "2 calls with one name; input any u8 < 50; the system queues one command per run",
       "the called system's commands are applied before named_syscall returns, on the creating call and on a later call; nothing stays queued"),
    # syscall.named_reentrant (named_syscall_reentrant_same_key: a command of a named system calling the SAME name): written, compiles,
    # exceeds the caps (600 s; also with a recursion bound of 2 on named_syscall) - not registered.
]

for (nm, what) in [("two_same_type", "2 entries of one reaction type"), ("two_types", "2 entries of two reaction types")]:
    OBLIGATIONS.append(k2(f"entreactors.remove_{nm}", _k2h("react::utils", f"entreactors_remove_{nm}"), ["C06", "C01", "C16"],
                          ["EntityReactors::remove", "EntityReactors::insert", "EntityReactors::count"], ["src/react/utils.rs"],
                          f"per-entity table: {what}, reactor ids symbolic (3 values, duplicates allowed); revoked (reaction type, reactor) symbolic",
                          "remove(rtype, id) deletes every entry of that reactor under that reaction type (all duplicates), nothing else; "
                          "second application is a no-op"))

OBLIGATIONS += [
    k2("ewr.add", _k2h("react::entity_world_reactor", "entity_reactor_add_attaches_data_once"), ["C16", "C18"],
       ["EntityReactor::add", "EntityTriggerBundle::new_bundle", "ReactCommands::with"], ["src/react/entity_world_reactor.rs", "src/react/react_commands.rs"],
       "target symbolically live or a stale id; reactor resource symbolically present; local data any u8",
       "add attaches exactly the given data to exactly that entity (try_insert) and queues exactly one registration, reserving no entity; "
       "dead entity or missing reactor: false and nothing queued"),
    k2("wr.single_system", _k2h("react::world_reactor", "world_reactor_uses_its_single_system"), ["C16"],
       ["Reactor::run", "Reactor::add", "Reactor::remove"], ["src/react/world_reactor.rs", "src/react/react_commands.rs"],
       "reactor resource symbolically present; system command index < 40",
       "run queues exactly the reactor's own system command; add/remove queue exactly one (de)registration each and reserve no entity; "
       "missing reactor: false and nothing queued"),
]

for (nm, what) in [("entity_scoped_only", "no type-wide removal reactor"), ("with_type_wide", "one type-wide removal reactor and one type-wide insertion reactor")]:
    OBLIGATIONS.append(k2(f"rc.removal_poll_{nm}", f"{RC}rc_removal_poll_{nm}", ["C08", "C01", "C11"],
                          ["ReactCache::schedule_removal_reactions", "ReactCache::track_removals", "collect_component_removals", "RemovalChecker::new",
                           "schedule_entity_reaction_impl", "syscall"], RC_SRC + ["src/ecs/syscall.rs"],
                          f"3 entities with entity-scoped removal reactors (one also with a mutation reactor); the environment reports the removal on 2 of them; {what}; reactor ids symbolic",
                          "one poll reacts to EVERY reported removal (entity-scoped removal reactors, then the type-wide removal list) in report order, "
                          "nothing for unreported entities; a second poll reacts to nothing (exactly once)"))

OBLIGATIONS.append(k2("token.every_member", _k2h("react::reaction_trigger", "token_names_every_bundle_member"), ["C06", "C16", "C15"],
                      ["RevokeToken::new_from", "get_reactor_types", "ReactionTriggerBundle for tuples", "ReactionTrigger::reactor_type"],
                      ["src/react/reaction_trigger.rs", "src/react/reaction_triggers_impl.rs", "src/react/utils.rs"],
                      "nested bundle of 5 members with one trigger named three times; reactor index < 50; the empty bundle",
                      "a token has one entry per bundle member in order, duplicates included; the empty bundle gives an empty token"))

OBLIGATIONS.append(k2("revoke.past_dead_entity", _k2h("react::react_commands", "revoke_reactor_continues_past_dead_entity"), ["C06", "C07", "C18"],
                      ["revoke_reactor", "revoke_entity_reactor", "ReactCache::revoke_broadcast_reactor"],
                      ["src/react/react_commands.rs", "src/react/react_cache.rs"],
                      "token = [entity mutation trigger naming an entity that does not exist, broadcast trigger]; a neighbour reactor under the broadcast key",
                      "the walk over the token does not stop at a trigger whose entity is gone: the following type-wide trigger is still revoked, the neighbour stays"))

OBLIGATIONS.append(k2("rc.removal_poll_minimal", f"{RC}rc_removal_poll_two_entities_minimal", ["C08", "C01"],
                      ["ReactCache::schedule_removal_reactions", "ReactCache::track_removals", "collect_component_removals", "RemovalChecker::new",
                       "schedule_entity_reaction_impl", "syscall"], RC_SRC + ["src/ecs/syscall.rs"],
                      "2 entities each with one entity-scoped removal reactor (ids symbolic), no type-wide reactor for the component; the environment "
                      "reports both removals; cached buffers pre-sized",
                      "one poll reacts to EVERY reported removal, each reaction carrying its entity and that entity's own removal reactor"))

OBLIGATIONS.append(k2("rc.removal_poll_same_entity_twice", f"{RC}rc_removal_poll_same_entity_twice", ["C08"],
                      ["ReactCache::schedule_removal_reactions", "collect_component_removals", "schedule_entity_reaction_impl", "syscall"],
                      RC_SRC + ["src/ecs/syscall.rs"],
                      "1 entity with one entity-scoped removal reactor; the environment reports two removals of it in one poll window "
                      "(remove, re-insert, remove)",
                      "each removal is reacted to: two removals of one entity between polls are two reactions carrying that entity"))
OBLIGATIONS.append(k2("entry.broadcast", _k2h("react::react_commands", "entry_broadcast_reaches_exactly_its_listeners"), ["C14", "C01", "C03"],
                      ["ReactCommands::broadcast", "ReactCommandsExt::syscall_with_validation (deferred)", "syscall_with_validation", "validate_rc",
                       "ReactCache::schedule_broadcast_reaction"],
                      ["src/react/react_commands.rs", "src/ecs/syscall.rs", "src/react/react_cache.rs"],
                      "two listeners of event type A in the world's ReactCache; the broadcast is symbolically of type A or of an unlistened type B; "
                      "payload any u8; the deferred syscall closure is applied at once (CmdMode::Immediate)",
                      "the public trigger call, through its deferred syscall, ends in exactly one dispatch: one reaction per listener of that "
                      "type in registration order sharing one data entity with the event's own payload; nothing for another type"))
OBLIGATIONS.append(k2("entry.resource_mutation", _k2h("react::react_commands", "entry_resource_mutation_reaches_exactly_its_reactors"), ["C14", "C01"],
                      ["ReactCommands::trigger_resource_mutation", "syscall_with_validation", "validate_rc", "ReactCache::schedule_resource_mutation_reaction"],
                      ["src/react/react_commands.rs", "src/ecs/syscall.rs", "src/react/react_cache.rs"],
                      "one reactor of resource type R; the trigger is symbolically for R or for an unwatched type; deferred syscall applied at once",
                      "the public trigger call ends in exactly one dispatch: one reaction per reactor of that resource type, none for another type",
                      ("thorough",)))
OBLIGATIONS += [
    k2("rc.entity_event_dead_typewide", f"{RC}rc_entity_event_dead_1_1_0", ["C18", "C01", "C05"],
       ["ReactCache::schedule_entity_event_reaction"], RC_SRC,
       "target symbolically alive or despawned before the event is applied; 1 entity-scoped listener and 1 TYPE-WIDE (any_entity_event) listener of the event type",
       "an entity event aimed at a despawned entity is dropped: nothing is scheduled (neither the dead target's listeners nor type-wide listeners), "
       "no data entity is reserved, the payload is released; for a live target dispatch is exact",
       witness=[["dead_target", "entity_event"]]),
    k2("rc.insertion_dead_target", f"{RC}rc_insertion_dead_target", ["C18", "C14", "C01"],
       ["ReactCache::schedule_insertion_reaction"], RC_SRC,
       "target symbolically a live entity or an id whose entity is gone; one type-wide insertion and one type-wide mutation reactor",
       "no insertion reaction is scheduled for an entity that no longer exists when the trigger is applied; a live entity gets exactly the type-wide insertion reactor",
       witness=[["dead_target", "insert"]]),
    k2("rc.mutation_dead_target", f"{RC}rc_mutation_dead_target", ["C18", "C14", "C01"],
       ["ReactCache::schedule_mutation_reaction"], RC_SRC,
       "target symbolically a live entity or an id whose entity is gone; one type-wide insertion and one type-wide mutation reactor",
       "no mutation reaction is scheduled for an entity that no longer exists when the trigger is applied; a live entity gets exactly the type-wide mutation reactor",
       witness=[["dead_target", "mutation"]]),
]



# K1 obligations superseded by lighter K2 ones or too heavy for the quick tier (measured): restrict to thorough / drop
# Dropped after measurement (they do not finish within the thorough caps, 14 GB / 1500 s, so keeping them would make a
# check inconclusive on the unchanged tree; their subject moves to "outside the claim" in DESIGN.md section 4):
#  K1 autodespawn.refcount / entreactors.* / mode.prepare / revoketoken.unique_entities: superseded by the case-split K2

# ---- registration kernels (C01 / C08 / C15: one entry per registration, right kind and type, nothing else) ----
_REGF = {"broadcast": "ReactCache::register_broadcast_reactor", "resource": "ReactCache::register_resource_mutation_reactor",
         "any_event": "ReactCache::register_any_entity_event_reactor"}
for (nm, kind, bounds, tiers) in [
    ("rc_register_broadcast_2_1", "broadcast", "key A: 2 entries, key B: 1; newcomer id symbolic (may already be registered)", ("quick", "thorough")),
    ("rc_register_broadcast_new_key", "broadcast", "key A: 1 entry; registration for a type with no key yet", ("thorough",)),
    ("rc_register_resource_1_1", "resource", "two other keys with 1 entry each; first registration for this resource type", ("thorough",)),
    ("rc_register_any_event_2_0", "any_event", "key A: 2 entries", ("thorough",)),
]:
    OBLIGATIONS.append(k2(nm.replace("rc_", "rc.", 1), f"{RC}{nm}", ["C01", "C15"], [_REGF[kind]], ["src/react/react_cache.rs"], bounds,
                          "one registration appends exactly one entry at the END of exactly the list of that kind and type (creating it "
                          "if needed); earlier entries, other keys and every other table are untouched; registrations are not merged",
                          tiers))
for (nm, kind, bounds, tiers) in [
    ("rc_register_insertion_1_1_1", "insertion", "component entry with 1+1+1 reactors", ("thorough",)),
    ("rc_register_mutation_1_1_1", "mutation", "component entry with 1+1+1 reactors", ("quick", "thorough")),
    ("rc_register_removal_1_1_0", "removal", "component entry with 1+1+0 reactors", ("thorough",)),
    ("rc_register_mutation_fresh", "mutation", "no entry for the component yet", ("thorough",)),
]:
    OBLIGATIONS.append(k2(nm.replace("rc_", "rc.", 1), f"{RC}{nm}", ["C01", "C15"] + (["C08"] if kind == "removal" else []),
                          [f"ReactCache::register_{kind}_reactor"], ["src/react/react_cache.rs"], bounds,
                          "a registration of one component-reaction kind appends one entry to exactly that kind's list under the "
                          "component's type; the two sibling lists and all other tables are untouched", tiers))
OBLIGATIONS.append(k2("rc.register_despawn_by_entity", f"{RC}rc_register_despawn_by_entity", ["C01", "C08"],
                      ["ReactCache::register_despawn_reactor"], ["src/react/react_cache.rs"],
                      "two watched entities with one reactor each; which one is addressed is symbolic",
                      "a despawn registration is stored under exactly the watched entity, at the end of its list"))
OBLIGATIONS.append(k2("once.wrapper", _k2h("react::react_commands", "once_reactor_runs_once_then_vanishes"), ["C15"],
                      ["ReactCommands::once", "the once_system / once_reactor closures", "RawCallbackSystem::run_with_cleanup",
                       "RevokeToken::new_from", "ReactWorldExt::react"], ["src/react/react_commands.rs", "src/ecs/callbacks.rs"],
                      "two-trigger bundle; 0-2 further invocations of the wrapper after the first (symbolic)",
                      "once() queues the registration and the wrapper's storage; the token names the wrapper's own entity and every "
                      "trigger of the bundle; the first invocation runs the user's reactor exactly once, despawns exactly its own "
                      "entity and revokes exactly its own token; every later invocation runs nothing and revokes nothing",
                      stubs=["ReactCommands::revoke -> record_revoke (counts calls, records the token's id and length; what a revoke "
                             "removes is decided by the C06 obligations, what the token names by token.every_member)"],
                      no_native_playback=True, witness=[["once", "twice"], ["once", "self_trigger"]]))

OBLIGATIONS.append(k2("revoke.exact_pairs", _k2h("react::react_commands", "revoke_reactor_exact_pairs_two_entities"), ["C06", "C16"],
                      ["revoke_reactor", "Query::get_mut"], ["src/react/react_commands.rs", "src/react/utils.rs"],
                      "two live entities with reactor tables; token = [EntityInsertion(e1, Ka), EntityEvent(e2, Ea)] (constant-size Arc)",
                      "revoke_reactor addresses exactly the (entity, reaction type) pairs the token names, each once, for the token's "
                      "reactor: e1's table is asked to remove (Insertion Ka) only, e2's table (Event Ea) only - triggers of the same "
                      "reactor that the token does not name are not touched (either order of the two removals is accepted)",
                      stubs=["EntityReactors::remove -> record_remove (records table address, reaction type, reactor id; what a removal "
                             "does to a table is decided by entreactors.remove_*)"],
                      no_native_playback=True, witness=[["revoke_pairs"]]))

_ROUTE_STUBS = ["EntityReactors::remove, ReactCache::revoke_{broadcast,resource_mutation,any_entity_event,component,despawn}_reactor -> recorders "
                "(kernel, reaction kind, type key, entity / table address, reactor id); the kernels' own behaviour is decided by rc.revoke_* and "
                "entreactors.remove_*"]
OBLIGATIONS.append(k2("revoke.routes_all_kinds", _k2h("react::react_commands", "revoke_reactor_routes_all_kinds"), ["C06", "C07", "C15", "C16"],
                      ["revoke_reactor", "Query::get_mut"], ["src/react/react_commands.rs", "src/react/utils.rs"],
                      "two-entry token, EACH entry symbolically any of the eleven ReactorType variants (121 combinations, duplicates included), aimed "
                      "at two different live entities carrying reactor tables",
                      "revoke_reactor makes exactly one kernel call per token entry - the kernel of that entry's kind, with that entry's type key / "
                      "entity (for entity-scoped kinds: that entity's table) and the token's reactor id; nothing is skipped, nothing else is addressed "
                      "(calls compared as a multiset)",
                      stubs=_ROUTE_STUBS, no_native_playback=True, witness=[["revoke_pairs"]]))
OBLIGATIONS.append(k2("revoke.routes_all_kinds_3", _k2h("react::react_commands", "revoke_reactor_routes_all_kinds_3"), ["C06", "C07", "C15", "C16"],
                      ["revoke_reactor", "Query::get_mut"], ["src/react/react_commands.rs", "src/react/utils.rs"],
                      "three-entry token, each entry symbolically any of the eleven ReactorType variants (1331 combinations), three live entities",
                      "as revoke.routes_all_kinds, three entries", tiers=("thorough",),
                      stubs=_ROUTE_STUBS, no_native_playback=True, witness=[["revoke_pairs"]]))

_ENTRY_STUBS = ["ReactCache::schedule_{entity_event,insertion,mutation}_reaction -> recorders (dispatch kind, type parameter, entity index + "
                "generation, payload); what a dispatch schedules is decided by rc.entity_event_* / rc.insertion_* / rc.mutation_* and their "
                "dead-target variants"]
OBLIGATIONS.append(k2("entry.entity_event", _k2h("react::react_commands", "entry_entity_event_one_dispatch"), ["C14", "C03"],
                      ["ReactCommands::entity_event", "Commands::syscall_with_validation", "syscall_with_validation", "validate_rc"],
                      ["src/react/react_commands.rs", "src/ecs/syscall.rs", "src/react/extensions.rs"],
                      "target symbolically live or a stale id; payload any u8; the queued syscall is applied at once",
                      "one entity_event call ends in exactly one entity-event dispatch of that event type, carrying exactly that target (index "
                      "and generation) and that payload; no other dispatch; nothing left queued",
                      stubs=_ENTRY_STUBS, no_native_playback=True, witness=[["entry", "entity_event"]]))
OBLIGATIONS.append(k2("entry.insert", _k2h("react::react_commands", "entry_insert_one_dispatch"), ["C14", "C18"],
                      ["ReactCommands::insert", "Commands::syscall_with_validation", "syscall_with_validation", "validate_rc"],
                      ["src/react/react_commands.rs", "src/ecs/syscall.rs", "src/react/extensions.rs"],
                      "target symbolically live or a stale id; component value any u8; queued commands applied at once",
                      "live entity: the wrapped component (recording its owner) is on the entity and exactly one INSERTION dispatch for that "
                      "component type and entity follows - no mutation dispatch; id that does not exist: nothing inserted, nothing dispatched",
                      stubs=_ENTRY_STUBS, no_native_playback=True, witness=[["entry", "insert"]]))
OBLIGATIONS.append(k2("entry.mutation_accessors", _k2h("react::react_commands", "entry_mutation_accessors_one_dispatch"), ["C14"],
                      ["React::get_mut", "React::set_if_neq", "React::get", "React::get_noreact", "Commands::syscall", "syscall"],
                      ["src/react/react_component.rs", "src/ecs/syscall.rs", "src/react/extensions.rs"],
                      "all old/new u8 pairs; one set_if_neq and one get_mut; queued syscalls applied at once",
                      "reads dispatch nothing; set_if_neq ends in exactly one MUTATION dispatch iff the value differs, get_mut in exactly one per "
                      "call, each for the component's own entity (index and generation)",
                      stubs=_ENTRY_STUBS, no_native_playback=True, witness=[["entry", "mutation"]]))

OBLIGATIONS.append(k2("token.duplicate_member", _k2h("react::reaction_trigger", "token_keeps_duplicate_member"), ["C06", "C15", "C16"],
                      ["RevokeToken::new_from", "get_reactor_types", "ReactionTriggerBundle::collect_reactor_types"],
                      ["src/react/reaction_trigger.rs", "src/react/utils.rs"], "two-member bundle repeating one broadcast trigger",
                      "the token names a repeated trigger once per member (registration stores one handle per member, so a shorter "
                      "token would leave a registration behind after the revoke)",
                      witness=[["revoke_dup", "once_duplicate"]]))
OBLIGATIONS.append(k2("token.reactor_types_duplicates", _k2h("react::reaction_trigger", "reactor_types_keep_duplicates"), ["C06", "C15", "C16"],
                      ["get_reactor_types", "ReactionTriggerBundle::collect_reactor_types", "ReactionTrigger::reactor_type"],
                      ["src/react/reaction_trigger.rs", "src/react/reaction_triggers_impl.rs"],
                      "a three-member bundle repeating a broadcast trigger around a resource trigger; a two-member bundle repeating a despawn trigger",
                      "the list a token is built from has one entry per bundle member, repeated triggers included, in bundle order (decided "
                      "on get_reactor_types itself: a list whose length depends on comparisons would make the token's Arc<[..]> allocation "
                      "symbolic, see P14)", witness=[["revoke_dup", "once_duplicate"]]))
OBLIGATIONS.append(k2("once.mode", _k2h("react::react_commands", "once_registers_in_a_refcounted_mode"), ["C15", "C07"],
                      ["ReactCommands::once", "ReactCommandsExt::syscall_with_validation (deferred)", "syscall_with_validation", "validate_rc"],
                      ["src/react/react_commands.rs", "src/ecs/syscall.rs"],
                      "one-trigger bundle; the deferred registration closure is applied at once",
                      "once() registers its triggers for the wrapper's own entity in a ref-counted mode, so a one-off reactor that never runs "
                      "(revoked before firing, empty bundle, trigger entity gone) is still collected",
                      stubs=["register_reactors -> record_register (records the mode and the system command it was called with; what "
                             "registration does with a mode is decided by register.* / mode.*)"],
                      no_native_playback=True, witness=[["once", "never_runs"]]))
OBLIGATIONS.append(k2("once.witness", _k2h("react::react_commands", "once_reactor_witness"), ["C15"], [], ["src/react/react_commands.rs"], "-",
                      "vacuity twin of once.wrapper", expect="fail",
                      stubs=["ReactCommands::revoke -> record_revoke"]))
OBLIGATIONS += [
    k2("register.empty_bundle", _k2h("react::react_commands", "register_reactors_empty_bundle"), ["C15", "C07"],
       ["register_reactors", "ReactorMode::prepare", "ReactionTriggerBundle::register_triggers for ()"],
       ["src/react/react_commands.rs", "src/react/reaction_trigger.rs"], "empty bundle; mode symbolic in {Revokable, Cleanup}; reactor id < 50",
       "an empty trigger bundle registers nothing and the reactor is handed to the collector at once, exactly once (it is "
       "dropped without ever running)"),
    k2("register.two_triggers", _k2h("react::react_commands", "register_reactors_two_triggers"), ["C15", "C07", "C01"],
       ["register_reactors", "ReactorMode::prepare", "ReactionTriggerBundle::register_triggers for (A, B)", "ReactionTrigger::register"],
       ["src/react/react_commands.rs", "src/react/reaction_trigger.rs", "src/react/reaction_triggers_impl.rs"],
       "two broadcast triggers; mode symbolic in {Revokable, Cleanup}",
       "exactly one deferred registration per trigger is queued; the reactor is not released while they are in flight"),
]

# ---- the recursive runner, decomposed into steps (C02, C09, C11, C12, C05, C13, C18) ----------------------------------
# Indirect calls of the runner are restricted per call site (goto-instrument --restrict-function-pointer adds an
# `ASSERT false` for any other target, so the restriction is checked): the setup pointer to the start_* functions of
# commands.rs, the harness's marker functions and the default no-op closure; the cleanup pointer to end_*, the markers and
# a panicking fallback; the boxed callback to the harness's closures.
RUNNER_FP = [
    [r"^react::syscommand_runner::SystemCommandSetup::run$",
     [r"^react::commands::start_\w+$", r"^react::syscommand_runner::verif_h::setup_\d$",
      r"^<\{closure@/repo/src/react/syscommand_runner.rs[^}]*\} as std::ops::FnOnce<\(&mut bevy::world::World, react::commands::SystemCommand\)>>::call_once$"]],
    [r"^react::system_command_spawning::SystemCommandCleanup::run$",
     [r"^react::commands::end_\w+$", r"^react::syscommand_runner::verif_h::cleanup_\d$", r"verif_h::fp_never$"]],
    [r"^<std::boxed::Box<dyn for<'a> std::ops::FnMut\(&'a mut bevy::world::World, react::system_command_spawning::SystemCommandCleanup\).*::call_mut$",
     [r"^react::syscommand_runner::verif_h::(logger|reenter|step_\w+|runner_\w+|diag_\w+)::\{closure#\d+\}$",
      r"^react::system_command_spawning::SystemCommandCallback::new::<.*>::\{closure#0\}$"]],
    [r"^bevy::world::World::flush_commands$", [r"^<\(.+\) as bevy::world::ApplyList>::apply_cmd$"]],
    [r"^bevy::world::CommandQueue::apply$", [r"^<\(.+\) as bevy::world::ApplyList>::apply_cmd$"]],
]
RUNNER_STUBS = [
    "garbage_collect_entities -> no-op (the collector is decided by gc.*; where the runner polls is outside these queries)",
    "schedule_removal_and_despawn_reactors -> no-op (decided by rc.removal_poll_* / rc.despawn_dispatch_*)",
    "bevy::world::Commands::queue -> Commands::m_queue_record (the model's queue without its verification switches)",
    "EntityWorldMut::despawn_recursive -> flag (only reachable on the runner's error path 'system command component is "
    "missing on insert'; every harness asserts the flag stays clear)",
]
_RS = ["src/react/syscommand_runner.rs", "src/react/system_command_spawning.rs", "src/react/command_queue.rs"]
_RH = "react::syscommand_runner"
_RF = ["syscommand_runner", "cleanup_on_abort", "SystemCommandSetup::run", "SystemCommandCleanup::run", "SystemCommandCallback::run",
       "SystemCommandStorage::take", "SystemCommandStorage::insert", "CobwebCommandQueue::push", "CobwebCommandQueue::remove",
       "CobwebCommandQueue::append", "CobwebCommandQueue::pop_front"]


_W_ABORT = [["runner", "abort_releases"], ["runner", "vanished_listener"]]
_W_REPLAY = [["runner", "mixed_kinds"], ["runner", "replay_order"], ["runner", "nested_self_then_ancestor"], ["runner", "nested_replay_ancestor"]]
_W_DEPTH = [["runner", "deep_tree", "200"], ["runner", "mixed_kinds"]]


def _runner(id, name, props, bounds, claim, tiers=("quick", "thorough"), expect="pass", extra_stub=None, witness=None):
    return k2(id, _k2h(_RH, name), props, _RF, _RS, bounds, claim, tiers, expect=expect, fp_restrict=RUNNER_FP,
              stubs=RUNNER_STUBS + ([extra_stub] if extra_stub else []), witness=witness,
              no_native_playback=bool(extra_stub))


OBLIGATIONS += [
    _runner("runner.missing_root", "runner_step_missing_target_root", ["C02", "C11", "C18", "C05"],
            "root call (tree position 0); target id never existed; one other idle system",
            "a command for a missing system runs no system, runs its setup then its cleanup exactly once (event data claimed and "
            "released), leaves the counter, the postponement buffer and other systems untouched", witness=_W_ABORT),
    _runner("runner.stale_nested", "runner_step_stale_target_nested", ["C02", "C11", "C18", "C05"],
            "inside a tree (position 2); target is a stale id (same index, older generation) of a live system; one postponed "
            "command of another system present", "as runner.missing_root; the other system's postponed command is not touched",
            ("thorough",), witness=_W_ABORT),
    _runner("runner.entity_without_system", "runner_step_entity_without_system", ["C11", "C18", "C05", "C02"],
            "target entity alive but without a system; tree position symbolic in {0, 3}",
            "a command aimed at a live entity that carries no system still runs setup then cleanup once; the entity is left alone", witness=_W_ABORT),
    _runner("runner.busy_nested", "runner_step_target_busy_nested", ["C02", "C09", "C12", "C04", "C03"],
            "target currently executing (callback out); tree position 1; one command of another system already postponed",
            "the command is appended to the postponement buffer unchanged (own command, setup, cleanup) behind what is there; "
            "nothing runs now - no system, no setup, no cleanup", witness=_W_REPLAY),
    _runner("runner.busy_root", "runner_step_target_busy_root", ["C11", "C02", "C18"],
            "target's callback lost; tree position 0", "at the root a command whose system is lost is aborted with setup+cleanup, "
            "nothing is postponed", ("thorough",), witness=_W_ABORT),
    _runner("runner.plain_run", "runner_step_plain_run", ["C02", "C04", "C09", "C11", "C13"],
            "idle target; tree position = ANY usize below usize::MAX (symbolic)",
            "setup, the system exactly once, its cleanup, in-line; the callback is back in its storage; counter reset at the root, "
            "advanced by one inside a tree - at every depth (no depth at which a command is dropped)", witness=_W_DEPTH),
]
_REPLAY = ("the replay step on the REAL runner body with its nested runner calls recorded (generated twin "
           "syscommand_runner_top + #[kani::stub(syscommand_runner, record_nested)]): A runs once with the caller's setup/cleanup and "
           "is back in its storage; then exactly the postponed commands for A are handed to the runner, in the order they were "
           "postponed, each with its OWN setup and cleanup; commands for B stay postponed in order; at the root they are discarded "
           "through their own setup+cleanup without running, the buffer is empty and the counter reset")
for k, tiers_root, tiers_nested in [(1, ("thorough",), ("quick", "thorough")), (2, ("quick", "thorough"), ("thorough",)),
                                    (3, ("quick", "thorough"), ("thorough",))]:
    for root, tiers in ((True, tiers_root), (False, tiers_nested)):
        OBLIGATIONS.append(_runner(
            f"runner.replay_{k}_{'root' if root else 'nested'}", f"runner_step_replay_{k}_{'root' if root else 'nested'}",
            ["C02", "C09", "C12", "C05", "C11", "C03"],
            f"{k} postponed command(s), each symbolically for A (about to run) or B (still executing / lost), distinct setup and "
            f"cleanup per command; tree position {'0' if root else 'ANY value in 1..usize::MAX-8 (symbolic)'}",
            _REPLAY, tiers,
            extra_stub="syscommand_runner (the ORIGINAL, called from the twin's replay closure) -> record_nested: records "
                       "(command, setup reactor, setup fn, cleanup fn) and logs one mark; the nested call's own behaviour is "
                       "decided by runner.plain_run / runner.busy_* / runner.missing_*",
            witness=_W_REPLAY))
OBLIGATIONS.append(_runner("runner.nested_inline", "runner_nested_inline", ["C09", "C02", "C11"],
                           "two systems; A's run queues one command for the idle B through Commands and flushes the world (the model's "
                           "per-command flush, E1); root call",
                           "B runs in-line, exactly once, before A's run continues; both callbacks are back, counter reset, nothing "
                           "postponed (two real runner levels through the real SystemCommand::apply)", ("thorough",), witness=_W_DEPTH))
# runner.replay_nested_postpones_* (a replayed run postponing into the live buffer): written, exceed 14 GB (VecDeque::append of two
# non-empty deques); the conservation they target is decided at the queue level by cmdqueue.cold_start / cmdqueue.fifo.
for root in (True, False):
    OBLIGATIONS.append(_runner(
        f"runner.self_despawn_{'root' if root else 'nested'}", f"runner_step_self_despawn_{'root' if root else 'nested'}",
        ["C11", "C02", "C05", "C18", "C15"],
        "the running system despawns its own entity; one command postponed for itself, one for another (lost) system; tree position "
        + ("0" if root else "2"),
        "the runner still completes: the system ran once; at the root the counter is reset, nothing stays postponed, the other system's "
        "leftover is discarded through its own setup+cleanup and the dead system's postponed command is released exactly once; inside a "
        "tree no postponed command vanishes",
        ("quick", "thorough") if root else ("thorough",),
        extra_stub="syscommand_runner (the ORIGINAL) -> record_nested", witness=[["runner", "self_despawn_residue"], ["once", "twice"]]))
OBLIGATIONS.append(_runner(
    "runner.replay_order_three", "runner_step_replay_order_three", ["C12", "C09", "C02"],
    "3 commands postponed for the finishing system itself (concrete ownership), distinct setup and cleanup; root call",
    "the three are replayed in the order they were postponed, each with its own setup and cleanup; quiescent afterwards (the lightest "
    "shape that can show a reordering)",
    extra_stub="syscommand_runner (the ORIGINAL) -> record_nested", witness=_W_REPLAY))
OBLIGATIONS.append(_runner(
    "runner.replay_4_root", "runner_step_replay_4_root", ["C02", "C09", "C12", "C05", "C11", "C03"],
    "4 postponed commands, each symbolically for A or B, distinct setup and cleanup per command; tree position 0", _REPLAY, ("thorough",),
    extra_stub="syscommand_runner (the ORIGINAL) -> record_nested", witness=_W_REPLAY))
OBLIGATIONS.append(_runner(
    "runner.poll_reaction", "runner_poll_reaction_for_same_system", ["C02", "C08", "C09"],
    "root call for an idle system A; the runner's FIRST poll schedules (and, as the real poll's flush does, applies) one reaction for A itself",
    "the polled reaction and the applied command each run A exactly once, each with its own setup and cleanup; quiescent afterwards",
    witness=[["runner", "poll_same_system"]]))
OBLIGATIONS[-1]["stubs"] = [x for x in OBLIGATIONS[-1]["stubs"] if not x.startswith("schedule_removal_and_despawn_reactors")] + [
    "schedule_removal_and_despawn_reactors -> stub_poll_schedules_reaction: the first poll applies one reaction for the polled system "
    "through the real runner (nested call), later polls do nothing"]
OBLIGATIONS.append(_runner(
    "runner.polls_after_run", "runner_polls_after_the_run", ["C08", "C07", "C10", "C04", "C03"],
    "idle or (symbolically) stale target; tree position symbolic in {0, 3}; garbage collection and the removal/despawn poll replaced by marks",
    "after the system and its cleanup (or an aborted command's cleanup) the runner collects garbage and then polls removals/despawns "
    "before it returns - so what a run releases, removes or despawns is reacted to within the same tree; and NOTHING (no collection, no "
    "poll, hence no other system's run) happens between the command's setup, which exposes its event data, and the reacting system's run",
    witness=[["runner", "poll_same_system"]]))
OBLIGATIONS[-1]["stubs"] = [x for x in OBLIGATIONS[-1]["stubs"] if not x.startswith(("schedule_removal", "garbage_collect"))] + [
    "garbage_collect_entities -> mark 31, schedule_removal_and_despawn_reactors -> mark 32 (only their POSITION in the runner is the subject)"]
OBLIGATIONS.append(_runner(
    "runner.real_callback", "runner_real_callback_cleanup_before_deferred", ["C04", "C09", "C13", "C02"],
    "an ordinary Bevy system (Commands, ResMut, Local) spawned with spawn_system_command; two commands for it with different "
    "setup/cleanup; root calls",
    "runner and the real callback wrapper joined (SystemCommandCallback::new, RawCallbackSystem::run_with_cleanup, "
    "run_initialized_system): setup, body, the command's cleanup, THEN the body's deferred commands; the Local continues over both "
    "commands; quiescent after each", witness=_W_REPLAY))
OBLIGATIONS[-1]["functions"] = OBLIGATIONS[-1]["functions"] + ["SystemCommandCallback::new", "spawn_system_command", "RawCallbackSystem::run_with_cleanup", "run_initialized_system"]
OBLIGATIONS[-1]["src"] = OBLIGATIONS[-1]["src"] + ["src/ecs/callbacks.rs"]
OBLIGATIONS.append(_runner("runner.witness", "runner_step_witness", ["C02", "C09", "C11"], "-", "vacuity twin of the runner step family",
                           expect="fail"))

_CS = ["src/react/commands.rs"]
_APPLY_STUB = ["syscommand_runner -> record_runner: counts the calls and records (command, setup reactor, which start_* function, "
               "which end_* function); the runner itself is decided by runner.*"]
for (nm, fn, props, what) in [
    ("system_command", "<SystemCommand as Command>::apply", ["C02", "C03", "C18"],
     "applying a system command hands it to the runner exactly once with no event setup/cleanup and prepares no event data"),
    ("event_command", "<EventCommand as Command>::apply", ["C02", "C03", "C05", "C12", "C18"],
     "a system event is prepared for exactly its target and handed to the runner exactly once with the system-event "
     "setup/cleanup - also when the target is gone (so that the payload is released by the abort path)"),
    ("reaction_resource", "<ReactionCommand as Command>::apply (Resource)", ["C02", "C03"],
     "a resource-mutation reaction reaches the runner once, with no event data"),
    ("reaction_entity", "<ReactionCommand as Command>::apply (EntityReaction)", ["C02", "C03", "C12", "C18"],
     "source entity and reaction type (insertion / mutation / removal, symbolic) are prepared for exactly that reactor and the "
     "runner is reached exactly once with the entity-reaction setup/cleanup"),
    ("reaction_despawn", "<ReactionCommand as Command>::apply (Despawn)", ["C02", "C03", "C07", "C08", "C18"],
     "the despawned entity and the reactor's handle are prepared for exactly that reactor; runner reached once with the despawn "
     "setup/cleanup"),
    ("reaction_entity_event", "<ReactionCommand as Command>::apply (EntityEvent)", ["C02", "C03", "C05", "C16", "C18"],
     "data entity and target are prepared for that reactor (both trackers) and the runner is reached exactly once - also when "
     "the reactor is gone, so that its share of the payload is released"),
    ("reaction_broadcast", "<ReactionCommand as Command>::apply (BroadcastEvent)", ["C02", "C03", "C05", "C18"],
     "the data entity is prepared for that reactor and the runner is reached exactly once - also when the reactor is gone"),
]:
    OBLIGATIONS.append(k2(f"cmd.apply_{nm}", _k2h("react::commands", f"apply_{nm}"), props, [fn], _CS,
                          "target symbolically a live entity or a stale id; all four trackers empty before", what,
                          stubs=_APPLY_STUB, no_native_playback=True,
                          witness=[["runner", "vanished_listener"], ["runner", "abort_releases"], ["runner", "mixed_kinds"], ["runner", "replay_order"]]))
for (nm, fns, props, bounds, what, tiers) in [
    ("broadcast_event", ["start_broadcast_event", "end_broadcast_event", "try_cleanup_data_entity", "EventAccessTracker::start",
                         "EventAccessTracker::end", "DataEntityCounter::decrement"], ["C05", "C03", "C04", "C11"],
     "readers still scheduled: symbolic 1..3; another system's event pending",
     "start exposes exactly the pending data of this reactor; end clears the flag and takes one share off: the payload is dropped "
     "(once) iff this was the last reader, never earlier", ("quick", "thorough")),
    ("entity_event", ["start_entity_event", "end_entity_event", "try_cleanup_data_entity"], ["C05", "C03", "C04", "C11", "C16"],
     "readers symbolic 1..2", "as broadcast, plus the event's target is exposed as the reaction source and that flag is cleared too",
     ("thorough",)),
    ("system_event", ["start_system_event", "end_system_event", "SystemEventAccessTracker::start", "SystemEventAccessTracker::end"],
     ["C05", "C03", "C04", "C11"], "payload not taken by the system",
     "the data is exposed to its target; the cleanup despawns the bookkeeping entity and drops an untaken payload once",
     ("quick", "thorough")),
    ("entity_reaction", ["start_entity_reaction", "end_entity_reaction"], ["C03", "C04", "C11", "C12"],
     "one pending reaction (queues with several entries: ent.step)", "source and type of the causing event exposed for exactly "
     "this reactor; the entry is consumed; flag cleared", ("thorough",)),
    ("despawn_reaction", ["start_despawn_reaction", "end_despawn_reaction", "DespawnAccessTracker::start", "DespawnAccessTracker::end"],
     ["C07", "C03", "C04", "C08", "C11"], "ref-counted (cleanup mode) reactor whose only handle travels with the reaction",
     "the handle keeps the reactor while the reaction is pending and running; end releases it and the reactor reaches the "
     "collector exactly once", ("quick", "thorough")),
]:
    OBLIGATIONS.append(k2(f"cmd.pair_{nm}", _k2h("react::commands", f"pair_{nm}"), props, fns, _CS, bounds, what, tiers,
                          witness=[["runner", "mixed_kinds"], ["runner", "vanished_listener"], ["runner", "abort_releases"]]))

#  obligations refcount.order_*, mode.*, token.unique_entities, rc.entity_event_* / rc.insertion_* (iter_rtype, count in context);
#  gc.*, revoke.routing_*, entreactors.remove_shape*, rc.despawn_dispatch_*: written, compile, exceed the caps.
_THOROUGH_ONLY = {"entreactors.dispatch", "entreactors.remove", "entreactors.witness", "rc.insertion_1_2_0_1", "rc.mutation_0_0_2_1"}
_DROPPED = {"autodespawn.refcount", "entreactors.handles", "revoketoken.unique_entities", "revoke.routing_dead", "revoke.routing_live",
            "syscall.spawned_self_despawn", "rc.removal_poll_entity_scoped_only", "rc.removal_poll_with_type_wide"}
if not os.environ.get("VERIF_INCLUDE_DROPPED"):
    OBLIGATIONS = [o for o in OBLIGATIONS if o["id"] not in _DROPPED]
for o in OBLIGATIONS:
    if o["id"] in _THOROUGH_ONLY:
        o["tiers"] = ["thorough"]


# Quick tier: an obligation that serves several properties is run in the quick check of the properties listed here only
# (it is still part of every serving property's thorough check).  Chosen from measured wall times so that each quick
# check stays within a few minutes at 4 CBMC processes.
_QUICK_ONLY_FOR = {
    "rc.entity_event_dead_typewide": ["C18"], "rc.insertion_dead_target": ["C18", "C14"], "rc.mutation_dead_target": ["C18", "C14"],
    "revoke.past_dead_entity": ["C18", "C07"],
    "entreactors.remove_shape0": [], "entreactors.remove_shape1": [], "entreactors.remove_shape2": ["C06"],
    "entreactors.remove_two_same_type": ["C06", "C16"], "entreactors.remove_two_types": ["C01"],
    "gc.all_released": [], "gc.parent_then_child": ["C10"], "rc.despawn_dispatch_twice": [],
    "rc.entity_event_2_1_1": ["C01", "C05"], "rc.entity_event_0_0_1": ["C01", "C05"],
    "rc.insertion_2_1_1_1": ["C01"], "rc.mutation_2_1_1_1": ["C01", "C14"],
    "rc.revoke_component_1_0_1": ["C06", "C01", "C07", "C14"], "rc.revoke_component_1_0_0": [],
    "rc.entity_event_dead": [], "rc.revoke_despawn_2_1": ["C06", "C18"], "rc.revoke_broadcast_2_1": ["C06", "C01"],
    "sysevt.drain3": ["C12"], "evt.drain3": ["C03"], "desp.step": ["C12", "C03"], "ent.step": ["C12", "C03", "C16"], "sysevt.step": ["C12", "C03", "C04", "C11", "C09"], "evt.step": ["C12", "C03", "C04", "C11"],
    "desp.witness": ["C12"], "ent.witness": ["C12"], "bundle.reactor_types": ["C06", "C16"],
    "rc.broadcast_0_2": ["C01", "C05"], "rc.broadcast_2_1": ["C01", "C05", "C03"],
    # runner steps / command application / setup-cleanup pairs (measured 25-150 s each)
    "runner.replay_1_nested": ["C09"], "runner.replay_2_root": ["C02", "C11", "C05"], "runner.replay_3_root": ["C09"], "runner.replay_order_three": ["C12"], "runner.poll_reaction": ["C08", "C02"], "runner.real_callback": ["C04"], "runner.polls_after_run": ["C08", "C07", "C04"], "runner.self_despawn_root": ["C11", "C05", "C18"],
    "runner.missing_root": ["C02", "C18"], "runner.entity_without_system": ["C11", "C05"],
    "runner.busy_nested": ["C02", "C09", "C12"], "runner.plain_run": ["C02", "C13", "C04", "C09"], "runner.witness": ["C02", "C09"],
    "cmd.apply_system_command": ["C02"], "cmd.apply_event_command": ["C05", "C12"], "cmd.apply_reaction_resource": ["C02"],
    "cmd.apply_reaction_entity": ["C03"], "cmd.apply_reaction_despawn": ["C08"], "cmd.apply_reaction_entity_event": ["C16"],
    "cmd.apply_reaction_broadcast": ["C05", "C18"],
    "cmd.pair_broadcast_event": ["C05"], "cmd.pair_system_event": ["C04"], "cmd.pair_despawn_reaction": ["C07"],
    "rc.register_broadcast_2_1": ["C01"], "rc.register_mutation_1_1_1": ["C15"], "rc.register_despawn_by_entity": ["C08"], "entry.broadcast": ["C14"], "syscall.named_nested": ["C17"],
    "register.two_triggers": ["C15"], "register.empty_bundle": ["C15"], "token.every_member": ["C06", "C15", "C16"], "revoke.exact_pairs": ["C06"], "entry.entity_event": ["C14"], "entry.insert": ["C14"], "revoke.routes_all_kinds": ["C06", "C07"], "token.reactor_types_duplicates": ["C06", "C15"],
}


def for_property(pid, tier):
    only = os.environ.get("VERIF_ONLY")
    out = []
    for o in OBLIGATIONS:
        if only and not re.search(only, o["id"]):
            continue
        if tier == "quick" and pid != "ALL" and o["id"] in _QUICK_ONLY_FOR and pid not in _QUICK_ONLY_FOR[o["id"]]:
            continue
        if (pid in o["props"] or pid == "ALL") and tier in o.get("tiers", ["quick", "thorough"]):
            out.append(o)
    return out
