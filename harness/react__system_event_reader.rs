// Harness fragment spliced inside the real `system_event_reader` module (white-box: private items visible).
// Obligations: C12 (per-system FIFO), C03 (first match exposes *that* entry), C04 (flag discipline,
// take-once), C11 (quiescent when nothing is pending).

#[cfg(not(feature = "thorough"))] const N: usize = 4;   // stated bound: pending entries
#[cfg(feature = "thorough")]      const N: usize = 6;
const NSYS: u8 = 3;                                // stated bound: system ids

fn sys(i: u8) -> SystemCommand { SystemCommand(ent(i as u32)) }

/// Inductive step.  Pre-state: ANY pending list of length <= N (symbolic systems, distinct payload tags),
/// flag clear.  Step: one `start(r)` for a system r that has a pending entry (precondition met by every call
/// site), then `end()`.  Post: the run saw the OLDEST entry of r; every other entry is still pending, in the
/// same relative order; flag set during the run and clear after it.  Because the post-state is again "any
/// pending list", the step covers histories of any length and any interleaving with further prepare() calls.
#[kani::proof]
#[kani::stub(core::any::TypeId::of, crate::vh::stub_typeid_of)]
#[kani::stub(<core::any::TypeId as crate::vh::PEq>::eq, crate::vh::stub_typeid_eq)]
#[kani::unwind(8)]
fn sysevt_tracker_step()
{
    let mut t = SystemEventAccessTracker::default();
    t.prepared.reserve(N);   // avoid reallocation inside the harness (CBMC cost only)
    let n: usize = kani::any();
    kani::assume(n <= N);
    let mut sh_sys = [0u8; N];
    let mut i = 0;
    while i < n
    {
        let s = any_below(NSYS);
        t.prepare(sys(s), ent(100 + i as u32));
        sh_sys[i] = s;
        assert!(!t.is_reacting(), "C04: prepare() must not make data readable");
        i += 1;
    }
    assert!(t.prepared.len() == n, "prepare() adds exactly one pending entry");

    let r = any_below(NSYS);
    let mut pos = N;
    let mut j = 0;
    while j < n { if pos == N && sh_sys[j] == r { pos = j; } j += 1; }
    kani::assume(pos < N);

    t.start(sys(r));
    assert!(t.is_reacting(), "start() with a pending entry must set the reacting flag");
    assert!(t.data_entity() == ent(100 + pos as u32), "C12/C03: a run must get the oldest pending entry of its system");
    assert!(t.prepared.len() == n - 1, "start() consumes exactly one pending entry");
    // remaining entries: same entries, same relative order
    let mut j = 0;
    while j < n - 1
    {
        let src = if j < pos { j } else { j + 1 };
        assert!(t.prepared[j].0 == sys(sh_sys[src]) && t.prepared[j].1 == ent(100 + src as u32),
            "C12: entries not claimed keep their relative order");
        j += 1;
    }
    kani::cover!(pos > 0 && pos + 1 < n, "claimed entry strictly inside the list");
    kani::cover!(n == N, "full-length list");

    let de = t.end();
    assert!(de == ent(100 + pos as u32), "end() returns the data entity of the run that just ended");
    assert!(!t.is_reacting(), "C04: end() must clear the reacting flag");
    assert!(t.prepared.len() == n - 1, "end() leaves pending entries alone");
    std::mem::forget(t);
}

/// Behavioural (reads no private field except the capacity reservation): three deliveries for system 1, interleaved
/// with two deliveries for system 2, payload ids symbolic: successive runs of system 1 see them in the order sent,
/// system 2's entries are untouched by system 1's runs.
#[kani::proof]
#[kani::stub(core::any::TypeId::of, crate::vh::stub_typeid_of)]
#[kani::stub(<core::any::TypeId as crate::vh::PEq>::eq, crate::vh::stub_typeid_eq)]
#[kani::unwind(8)]
fn sysevt_tracker_drain3()
{
    let mut t = SystemEventAccessTracker::default();
    t.prepared.reserve(8);
    let a: u32 = kani::any(); let b: u32 = kani::any(); let c: u32 = kani::any();
    let x: u32 = kani::any(); let y: u32 = kani::any();
    kani::assume(a < 1000 && b < 1000 && c < 1000 && x < 1000 && y < 1000);
    t.prepare(sys(2), ent(x));
    t.prepare(sys(1), ent(a));
    t.prepare(sys(1), ent(b));
    t.prepare(sys(2), ent(y));
    t.prepare(sys(1), ent(c));
    t.start(sys(1)); assert!(t.data_entity() == ent(a), "C12: first delivery first"); let _ = t.end();
    t.start(sys(1)); assert!(t.data_entity() == ent(b), "C12: second delivery second"); let _ = t.end();
    t.start(sys(1)); assert!(t.data_entity() == ent(c), "C12: third delivery third"); let _ = t.end();
    t.start(sys(2)); assert!(t.data_entity() == ent(x), "C12: other system's deliveries keep their order"); let _ = t.end();
    t.start(sys(2)); assert!(t.data_entity() == ent(y)); let _ = t.end();
    assert!(!t.is_reacting());
    kani::cover!(a != b && b != c, "distinct payloads");
    std::mem::forget(t);
}

/// Vacuity twin: must FAIL (reachability witness for the harnesses above).
#[kani::proof]
#[kani::stub(core::any::TypeId::of, crate::vh::stub_typeid_of)]
#[kani::stub(<core::any::TypeId as crate::vh::PEq>::eq, crate::vh::stub_typeid_eq)]
#[kani::unwind(8)]
fn sysevt_tracker_witness()
{
    let mut t = SystemEventAccessTracker::default();
    t.prepare(sys(1), ent(100));
    t.prepare(sys(1), ent(101));
    t.start(sys(1));
    let _ = t.end();
    assert!(false, "witness: reachable");
}

/// C04: a system-event payload can be taken at most once.
#[kani::proof]
#[kani::stub(core::any::TypeId::of, crate::vh::stub_typeid_of)]
#[kani::stub(<core::any::TypeId as crate::vh::PEq>::eq, crate::vh::stub_typeid_eq)]
fn sysevt_take_once()
{
    let v: u32 = kani::any();
    let mut d = SystemEventData::new(v);
    let a = d.take();
    let b = d.take();
    let c = d.take();
    assert!(a == Some(v));
    assert!(b.is_none() && c.is_none(), "C04: payload taken at most once");
    kani::cover!(true, "end of harness reached");
}
