// Harness fragment spliced inside the real `commands` module (white-box).
// Obligation (C05): the reader counter on an event's data entity: `is_done()` becomes true exactly when the
// number of decrements reaches the initial count, never earlier; further decrements are harmless (saturating).

#[kani::proof]
#[kani::stub(core::any::TypeId::of, crate::vh::stub_typeid_of)]
#[kani::stub(<core::any::TypeId as crate::vh::PEq>::eq, crate::vh::stub_typeid_eq)]
#[kani::unwind(7)]
fn data_entity_counter_exact()
{
    let n: usize = kani::any();
    kani::assume(n >= 1 && n <= 5);
    let mut c = DataEntityCounter::new(n);
    let mut done_at: usize = 0;
    let mut i = 0;
    while i < 6
    {
        if i < n { assert!(!c.is_done(), "C05: payload must stay alive while a scheduled reader has not finished"); }
        c.decrement();
        i += 1;
        if c.is_done() && done_at == 0 { done_at = i; }
    }
    assert!(done_at == n, "C05: released exactly after the last of n readers");
    assert!(c.is_done(), "C05: extra decrements do not resurrect the counter");
    kani::cover!(true, "end of harness reached");
}

/// Huge counts behave (no wrap): usize::MAX readers, one decrement => not done.
#[kani::proof]
#[kani::stub(core::any::TypeId::of, crate::vh::stub_typeid_of)]
#[kani::stub(<core::any::TypeId as crate::vh::PEq>::eq, crate::vh::stub_typeid_eq)]
fn data_entity_counter_no_wrap()
{
    let n: usize = kani::any();
    kani::assume(n >= 2);
    let mut c = DataEntityCounter::new(n);
    c.decrement();
    assert!(!c.is_done());
    let mut z = DataEntityCounter::new(0);
    assert!(z.is_done());
    z.decrement();
    assert!(z.is_done(), "saturating");
    kani::cover!(true, "end of harness reached");
}
