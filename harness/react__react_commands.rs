// Harness fragment spliced inside the real `react_commands` module (white-box).
// Obligation (C07): ReactorMode::prepare chooses the handle kind by mode: Persistent => a plain handle that never
// reaches the despawner; Cleanup / Revokable => a ref-counted handle for exactly this reactor.

#[kani::proof]
#[kani::stub(core::any::TypeId::of, crate::vh::stub_typeid_of)]
#[kani::stub(<core::any::TypeId as crate::vh::PEq>::eq, crate::vh::stub_typeid_eq)]
fn reactormode_prepare_by_mode()
{
    let d = crate::ecs::auto_despawn::verif_h::mk_despawner();
    let idx: u32 = kani::any();
    kani::assume(idx < 1000);
    let sc = SystemCommand(ent(idx));
    let m: u8 = any_below(3);
    let mode = match m { 0 => ReactorMode::Persistent, 1 => ReactorMode::Cleanup, _ => ReactorMode::Revokable };
    let h = mode.prepare(&d, sc);
    assert!(h.sys_command() == sc, "the handle names the reactor it was prepared for");
    let c = h.clone();
    assert!(c.sys_command() == sc);
    match (&h, m)
    {
        (ReactorHandle::Persistent(_), 0) => {}
        (ReactorHandle::AutoDespawn(_), 1) | (ReactorHandle::AutoDespawn(_), 2) => {}
        _ => assert!(false, "C07: handle kind must follow the reactor mode"),
    }
    drop(c);
    assert!(d.try_recv().is_none(), "C07: nothing is collected while a handle exists");
    drop(h);
    if m == 0 { assert!(d.try_recv().is_none(), "C07: a persistent reactor is never sent to the despawner"); }
    else
    {
        assert!(d.try_recv() == Some(ent(idx)), "C07: a cleanup/revokable reactor with no holder left is collected");
        assert!(d.try_recv().is_none(), "exactly once");
    }
}
