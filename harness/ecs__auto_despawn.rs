// Harness fragment spliced inside the real `auto_despawn` module (white-box).
// Obligations: C10 (exact reference count: nothing receivable while a clone exists, exactly one message after the
// last drop), C07 (same kernel, seen as reactor lifetime).
//
// Stub in force: `crossbeam::channel` is /verif/envstub/crossbeam (FIFO, exactly-once, never blocks); threads are
// not modelled.  `Arc`, `Drop for AutoDespawnSignalInner`, `AutoDespawner::{new,prepare,try_recv}`,
// `AutoDespawnSignal::{new,clone,entity}` are the real code.

/// Helper for harnesses of other modules (AutoDespawner::new is private to this module).
pub fn mk_despawner() -> AutoDespawner { AutoDespawner::new() }

#[cfg(not(feature = "thorough"))] const CLONES: usize = 3;   // stated bound: extra clones per entity
#[cfg(feature = "thorough")]      const CLONES: usize = 5;

/// Two entities; entity A gets the original signal + up to CLONES clones, entity B one signal.  All of A's
/// holders are dropped in a symbolic order, interleaved (symbolically) with the drop of B's.  After every drop:
/// A is receivable iff no holder of A remains, and then exactly once; B likewise.
#[kani::proof]
#[kani::stub(core::any::TypeId::of, crate::vh::stub_typeid_of)]
#[kani::stub(<core::any::TypeId as crate::vh::PEq>::eq, crate::vh::stub_typeid_eq)]
#[kani::unwind(8)]
fn autodespawn_refcount_exact()
{
    let d = AutoDespawner::new();
    let a = ent(11);
    let b = ent(22);
    let extra: usize = kani::any();
    kani::assume(extra <= CLONES);

    let mut holders: [Option<AutoDespawnSignal>; CLONES + 1] = Default::default();
    let first = d.prepare(a);
    assert!(first.entity() == a, "the signal names the prepared entity");
    let mut i = 0;
    while i < extra { holders[i + 1] = Some(first.clone()); i += 1; }
    holders[0] = Some(first);
    let mut sig_b = Some(d.prepare(b));
    assert!(d.try_recv().is_none(), "C10: nothing is collected while signals exist");

    let mut live = extra + 1;
    let mut got_a = 0u8;
    let mut got_b = 0u8;
    let mut step = 0;
    while step < CLONES + 2
    {
        // symbolic choice: drop B's signal (if still held) or one of A's live holders
        let drop_b: bool = kani::any();
        if drop_b && sig_b.is_some()
        {
            sig_b = None;
        }
        else if live > 0
        {
            let idx: usize = kani::any();
            kani::assume(idx <= CLONES);
            kani::assume(holders[idx].is_some());
            holders[idx] = None;
            live -= 1;
        }
        // drain what is receivable now
        let mut k = 0;
        while k < 3
        {
            match d.try_recv()
            {
                Some(e) => { if e == a { got_a += 1; } else if e == b { got_b += 1; } else { assert!(false, "unknown entity sent"); } }
                None => {}
            }
            k += 1;
        }
        assert!(got_a == if live == 0 { 1 } else { 0 }, "C10: A is sent exactly once, and only after its last clone is dropped");
        assert!(got_b == if sig_b.is_none() { 1 } else { 0 }, "C10: B is sent exactly once, when its only signal is dropped");
        step += 1;
    }
    kani::cover!(live == 0 && sig_b.is_none() && extra == CLONES, "everything dropped, max clones");
    kani::cover!(live > 0 && sig_b.is_none(), "B collected while A is still held");
}

/// Clones report the same entity; cloning sends nothing; dropping a clone while the original lives sends nothing.
#[kani::proof]
#[kani::stub(core::any::TypeId::of, crate::vh::stub_typeid_of)]
#[kani::stub(<core::any::TypeId as crate::vh::PEq>::eq, crate::vh::stub_typeid_eq)]
fn autodespawn_clone_is_silent()
{
    let d = AutoDespawner::new();
    let idx: u32 = kani::any();
    kani::assume(idx < 1000);
    let s = d.prepare(ent(idx));
    let c = s.clone();
    assert!(c.entity() == ent(idx) && s.entity() == ent(idx));
    drop(c);
    assert!(d.try_recv().is_none(), "C10: dropping a clone while another exists sends nothing");
    let c2 = s.clone();
    drop(s);
    assert!(d.try_recv().is_none(), "C10: dropping the original while a clone exists sends nothing");
    drop(c2);
    assert!(d.try_recv() == Some(ent(idx)), "C10: last drop sends the entity");
    assert!(d.try_recv().is_none(), "C10: exactly once");
    kani::cover!(true, "end of harness reached");
}

/// Clones of the AutoDespawner resource share one channel (collection sees signals prepared via any clone).
#[kani::proof]
#[kani::stub(core::any::TypeId::of, crate::vh::stub_typeid_of)]
#[kani::stub(<core::any::TypeId as crate::vh::PEq>::eq, crate::vh::stub_typeid_eq)]
fn autodespawn_despawner_clone_shares_channel()
{
    let d = AutoDespawner::new();
    let d2 = d.clone();
    let s = d2.prepare(ent(5));
    drop(s);
    assert!(d.try_recv() == Some(ent(5)));
    assert!(d2.try_recv().is_none());
    kani::cover!(true, "end of harness reached");
}

#[kani::proof]
#[kani::stub(core::any::TypeId::of, crate::vh::stub_typeid_of)]
#[kani::stub(<core::any::TypeId as crate::vh::PEq>::eq, crate::vh::stub_typeid_eq)]
#[kani::unwind(8)]
fn autodespawn_witness()
{
    let d = AutoDespawner::new();
    let s = d.prepare(ent(1));
    let c = s.clone();
    drop(s); drop(c);
    assert!(d.try_recv() == Some(ent(1)));
    assert!(false, "witness: reachable");
}
