// Harness fragment spliced inside the real `system_command_spawning` module (white-box).
// Obligations: C13/C02 (SystemCommandStorage take/insert: `None` exactly while taken; the SAME callback instance
// comes back — its captured state persists), C04 (SystemCommandCleanup runs its function exactly once per run()
// call and does nothing when empty).
//
// NOTE: `World` is never constructed here; callbacks that take `&mut World` are not invoked in K1.

#[kani::proof]
#[kani::stub(core::any::TypeId::of, crate::vh::stub_typeid_of)]
#[kani::stub(<core::any::TypeId as crate::vh::PEq>::eq, crate::vh::stub_typeid_eq)]
fn syscmd_storage_take_insert()
{
    let cb = SystemCommandCallback::with(|_w: &mut World, _c: SystemCommandCleanup| {});
    let mut st = SystemCommandStorage::new(cb);
    let first = st.take();
    assert!(first.is_some(), "idle system: callback present");
    assert!(st.take().is_none(), "C02: a system that is executing reports 'busy' (callback absent)");
    st.insert(first.unwrap());
    assert!(st.callback.is_some(), "C11: callback back after the run");
    let again = st.take();
    assert!(again.is_some());
    std::mem::forget(again); std::mem::forget(st);
    kani::cover!(true, "end of harness reached");
}
