// Harness fragment spliced inside the real `reaction_trigger` module (white-box).
// Obligations (C06, C16): the token built at registration lists exactly the bundle's triggers, in order, including
// nested tuples, with the kind / type id / entity each trigger names.

use std::any::TypeId;

#[derive(ReactComponent)] struct CompA;
#[derive(ReactComponent)] struct CompB;
#[derive(ReactResource)] struct ResA;
struct EvA; struct EvB;

#[kani::proof]
#[kani::stub(core::any::TypeId::of, crate::vh::stub_typeid_of)]
#[kani::stub(<core::any::TypeId as crate::vh::PEq>::eq, crate::vh::stub_typeid_eq)]
#[kani::unwind(14)]
fn bundle_reactor_types_in_order()
{
    let e1 = ent(any_below(50) as u32);
    let e2 = ent(60 + any_below(50) as u32);
    let bundle = (
        insertion::<CompA>(), mutation::<CompB>(), removal::<CompA>(),
        (entity_insertion::<CompA>(e1), entity_mutation::<CompA>(e2), entity_removal::<CompB>(e1)),
        entity_event::<EvA>(e2), any_entity_event::<EvB>(),
        (resource_mutation::<ResA>(), (broadcast::<EvA>(), despawn(e1))),
    );
    assert!(bundle.len() == 11);
    let tys = get_reactor_types(bundle);
    let expect = [
        ReactorType::ComponentInsertion(TypeId::of::<CompA>()),
        ReactorType::ComponentMutation(TypeId::of::<CompB>()),
        ReactorType::ComponentRemoval(TypeId::of::<CompA>()),
        ReactorType::EntityInsertion(e1, TypeId::of::<CompA>()),
        ReactorType::EntityMutation(e2, TypeId::of::<CompA>()),
        ReactorType::EntityRemoval(e1, TypeId::of::<CompB>()),
        ReactorType::EntityEvent(e2, TypeId::of::<EvA>()),
        ReactorType::AnyEntityEvent(TypeId::of::<EvB>()),
        ReactorType::ResourceMutation(TypeId::of::<ResA>()),
        ReactorType::Broadcast(TypeId::of::<EvA>()),
        ReactorType::Despawn(e1),
    ];
    assert!(tys.len() == 11, "C06: one token entry per trigger of the bundle");
    let mut i = 0;
    while i < 11 { assert!(tys[i] == expect[i], "C06: token entry names the trigger's kind, type and entity"); i += 1; }

    let token = RevokeToken::new_from(SystemCommand(ent(200)), bundle);
    assert!(token.id == SystemCommand(ent(200)));
    assert!(token.reactors.len() == 11);
    let mut i = 0;
    while i < 11 { assert!(token.reactors[i] == expect[i]); i += 1; }
    let empty = RevokeToken::new_from(SystemCommand(ent(200)), ());
    assert!(empty.reactors.len() == 0, "C15: empty bundle => empty token");
    std::mem::forget(tys);
    kani::cover!(true, "end of harness reached");
}

/// EntityTriggerBundle::new_bundle names the given entity in every member (C16: add() registers for THAT entity).
#[kani::proof]
#[kani::stub(core::any::TypeId::of, crate::vh::stub_typeid_of)]
#[kani::stub(<core::any::TypeId as crate::vh::PEq>::eq, crate::vh::stub_typeid_eq)]
#[kani::unwind(6)]
fn entity_bundle_names_entity()
{
    let e = ent(any_below(100) as u32);
    let b = <(EntityMutationTrigger<CompA>, EntityEventTrigger<EvA>, EntityRemovalTrigger<CompB>) as EntityTriggerBundle>::new_bundle(e);
    let tys = get_reactor_types(b);
    assert!(tys.len() == 3);
    assert!(tys[0] == ReactorType::EntityMutation(e, TypeId::of::<CompA>()));
    assert!(tys[1] == ReactorType::EntityEvent(e, TypeId::of::<EvA>()));
    assert!(tys[2] == ReactorType::EntityRemoval(e, TypeId::of::<CompB>()));
    assert!(b.0.entity() == e && b.1.entity() == e && b.2.entity() == e);
    std::mem::forget(tys);
    kani::cover!(true, "end of harness reached");
}
