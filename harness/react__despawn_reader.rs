// Harness fragment spliced inside the real `despawn_reader` module (white-box).
// Obligations: C12 (per-system FIFO), C03 (first match), C04 (flag discipline), C07 (the reactor handle carried by a
// despawn reaction is held during the run and released by end()), C11.

#[cfg(not(feature = "thorough"))] const N: usize = 4;   // stated bound: pending entries
#[cfg(feature = "thorough")]      const N: usize = 6;
const NSYS: u8 = 3;

fn sys(i: u8) -> SystemCommand { SystemCommand(ent(i as u32)) }

/// Inductive step, same shape as the other trackers (see system_event_reader harness).
#[kani::proof]
#[kani::stub(core::any::TypeId::of, crate::vh::stub_typeid_of)]
#[kani::stub(<core::any::TypeId as crate::vh::PEq>::eq, crate::vh::stub_typeid_eq)]
#[kani::unwind(8)]
fn desp_tracker_step()
{
    let mut t = DespawnAccessTracker::default();
    t.prepared.reserve(N);
    let n: usize = kani::any();
    kani::assume(n <= N);
    let mut sh_sys = [0u8; N];
    let mut i = 0;
    while i < n
    {
        let s = any_below(NSYS);
        t.prepare(sys(s), ent(100 + i as u32), ReactorHandle::Persistent(sys(s)));
        sh_sys[i] = s;
        assert!(!t.is_reacting(), "C04: prepare() must not make data readable");
        i += 1;
    }
    assert!(t.prepared.len() == n);

    let r = any_below(NSYS);
    let mut pos = N;
    let mut j = 0;
    while j < n { if pos == N && sh_sys[j] == r { pos = j; } j += 1; }
    kani::assume(pos < N);

    t.start(sys(r));
    assert!(t.is_reacting(), "start() with a pending entry must set the reacting flag");
    assert!(t.source() == ent(100 + pos as u32), "C12/C03: a run must get the oldest pending despawn of its system");
    assert!(t.reactor_handle.is_some(), "C07: the in-flight handle is held while the reactor runs");
    assert!(t.prepared.len() == n - 1);
    let mut j = 0;
    while j < n - 1
    {
        let src = if j < pos { j } else { j + 1 };
        assert!(t.prepared[j].0 == sys(sh_sys[src]) && t.prepared[j].1 == ent(100 + src as u32)
            && t.prepared[j].2.sys_command() == sys(sh_sys[src]),
            "C12: entries not claimed keep their relative order");
        j += 1;
    }
    kani::cover!(pos > 0 && pos + 1 < n, "claimed entry strictly inside the list");
    kani::cover!(n == N, "full-length list");

    t.end();
    assert!(!t.is_reacting(), "C04: end() must clear the reacting flag");
    assert!(t.reactor_handle.is_none(), "C07: end() releases the in-flight handle");
    assert!(t.prepared.len() == n - 1);
    std::mem::forget(t);
}

/// C07 conservation: the auto-despawn handle travelling with a despawn reaction is the reactor's LAST owner; it must
/// stay alive while the reaction is pending and while it runs, and be released (=> reactor entity sent to the
/// despawner exactly once) by end().
#[kani::proof]
#[kani::stub(core::any::TypeId::of, crate::vh::stub_typeid_of)]
#[kani::stub(<core::any::TypeId as crate::vh::PEq>::eq, crate::vh::stub_typeid_eq)]
#[kani::unwind(8)]
fn desp_tracker_handle_lifetime()
{
    let despawner = crate::ecs::auto_despawn::verif_h::mk_despawner();
    let reactor = ent(7);
    let mut t = DespawnAccessTracker::default();
    t.prepared.reserve(4);
    let two: bool = kani::any();   // one or two despawn reactions in flight for the same reactor
    {
        let signal = despawner.prepare(reactor);
        t.prepare(SystemCommand(reactor), ent(100), ReactorHandle::AutoDespawn(signal.clone()));
        if two { t.prepare(SystemCommand(reactor), ent(101), ReactorHandle::AutoDespawn(signal.clone())); }
    }
    assert!(despawner.try_recv().is_none(), "C07: pending despawn reaction keeps its reactor alive");
    t.start(SystemCommand(reactor));
    assert!(despawner.try_recv().is_none(), "C07: reactor alive while its despawn reaction runs");
    t.end();
    if two
    {
        assert!(despawner.try_recv().is_none(), "C07: a second pending reaction still keeps the reactor alive");
        t.start(SystemCommand(reactor));
        assert!(despawner.try_recv().is_none());
        t.end();
    }
    assert!(despawner.try_recv() == Some(reactor), "C07: last in-flight handle released => reactor collected");
    assert!(despawner.try_recv().is_none(), "C07/C10: collected exactly once");
    kani::cover!(two, "two reactions in flight");
    std::mem::forget(t);
}

#[kani::proof]
#[kani::stub(core::any::TypeId::of, crate::vh::stub_typeid_of)]
#[kani::stub(<core::any::TypeId as crate::vh::PEq>::eq, crate::vh::stub_typeid_eq)]
#[kani::unwind(8)]
fn desp_tracker_witness()
{
    let mut t = DespawnAccessTracker::default();
    t.prepare(sys(1), ent(100), ReactorHandle::Persistent(sys(1)));
    t.prepare(sys(1), ent(101), ReactorHandle::Persistent(sys(1)));
    t.start(sys(1));
    t.end();
    assert!(false, "witness: reachable");
}
