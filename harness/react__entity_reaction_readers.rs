// Harness fragment spliced inside the real `entity_reaction_readers` module (white-box).
// Obligations: C12 (per-system FIFO), C03 (first match exposes system, source AND reaction type of that entry),
// C04 (flag discipline), C11.

#[cfg(not(feature = "thorough"))] const N: usize = 4;   // stated bound: pending entries
#[cfg(feature = "thorough")]      const N: usize = 6;
const NSYS: u8 = 3;

fn sys(i: u8) -> SystemCommand { SystemCommand(ent(i as u32)) }

struct TyA; struct TyB;

/// 8 reaction types: 4 kinds x 2 component/event types.
fn rtype(k: u8) -> EntityReactionType
{
    let id = if k & 1 == 0 { TypeId::of::<TyA>() } else { TypeId::of::<TyB>() };
    match k >> 1
    {
        0 => EntityReactionType::Insertion(id),
        1 => EntityReactionType::Mutation(id),
        2 => EntityReactionType::Removal(id),
        _ => EntityReactionType::Event(id),
    }
}

#[kani::proof]
#[kani::stub(core::any::TypeId::of, crate::vh::stub_typeid_of)]
#[kani::stub(<core::any::TypeId as crate::vh::PEq>::eq, crate::vh::stub_typeid_eq)]
#[kani::unwind(8)]
fn ent_tracker_step()
{
    let mut t = EntityReactionAccessTracker::default();
    t.prepared.reserve(N);
    let n: usize = kani::any();
    kani::assume(n <= N);
    let mut sh_sys = [0u8; N];
    let mut sh_rt = [0u8; N];
    let mut i = 0;
    while i < n
    {
        let s = any_below(NSYS);
        let k = any_below(8);
        t.prepare(sys(s), ent(100 + i as u32), rtype(k));
        sh_sys[i] = s; sh_rt[i] = k;
        assert!(!t.is_reacting(), "C04: prepare() must not make data readable");
        i += 1;
    }
    assert!(t.prepared.len() == n);

    let r = any_below(NSYS);
    let mut pos = N;
    let mut j = 0;
    while j < n { if pos == N && sh_sys[j] == r { pos = j; } j += 1; }
    kani::assume(pos < N);

    t.start(sys(r));
    assert!(t.is_reacting(), "start() with a pending entry must set the reacting flag");
    assert!(t.system() == sys(r), "C03: the tracker names the system that is running");
    assert!(t.source() == ent(100 + pos as u32), "C12/C03: a run must get the oldest pending entry of its system");
    assert!(t.reaction_type() == rtype(sh_rt[pos]), "C03: reaction kind and type id are those of the claimed entry");
    assert!(t.prepared.len() == n - 1);
    let mut j = 0;
    while j < n - 1
    {
        let src = if j < pos { j } else { j + 1 };
        assert!(t.prepared[j].0 == sys(sh_sys[src]) && t.prepared[j].1 == ent(100 + src as u32)
            && t.prepared[j].2 == rtype(sh_rt[src]),
            "C12: entries not claimed keep their relative order");
        j += 1;
    }
    kani::cover!(pos > 0 && pos + 1 < n, "claimed entry strictly inside the list");
    kani::cover!(n == N, "full-length list");

    t.end();
    assert!(!t.is_reacting(), "C04: end() must clear the reacting flag");
    assert!(t.prepared.len() == n - 1);
    std::mem::forget(t);
}

#[kani::proof]
#[kani::stub(core::any::TypeId::of, crate::vh::stub_typeid_of)]
#[kani::stub(<core::any::TypeId as crate::vh::PEq>::eq, crate::vh::stub_typeid_eq)]
#[kani::unwind(8)]
fn ent_tracker_witness()
{
    let mut t = EntityReactionAccessTracker::default();
    t.prepare(sys(1), ent(100), rtype(0));
    t.prepare(sys(1), ent(101), rtype(1));
    t.start(sys(1));
    t.end();
    assert!(false, "witness: reachable");
}
