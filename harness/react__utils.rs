// Harness fragment spliced inside the real `utils` module (white-box).
// Obligations on `EntityReactors` (the per-entity registration table): C01 (dispatch reads exactly the entries
// whose reaction type matches — kind AND type id — in insertion order), C06 (remove(rtype, id) deletes every entry
// of that reactor under that reaction type and nothing else; idempotent), C07 (removal/drop releases the handle),
// C16 (iter_reactors lists every registration's reactor), plus RevokeToken / ReactorType kernels (C06, C16).

#[cfg(not(feature = "thorough"))] const N: usize = 3;   // stated bound: entries in one entity's table
#[cfg(feature = "thorough")]      const N: usize = 7;   // crosses SmallVec's inline capacity of 6
const NSYS: u8 = 3;
const NRT: u8 = 8;                                       // 4 kinds x 2 type ids

struct TyA; struct TyB;

fn sys(i: u8) -> SystemCommand { SystemCommand(ent(i as u32)) }

fn rtype(k: u8) -> EntityReactionType
{
    let id = if k & 1 == 0 { TypeId::of::<TyA>() } else { TypeId::of::<TyB>() };
    match k >> 1
    {
        0 => EntityReactionType::Insertion(id),
        1 => EntityReactionType::Mutation(id),
        2 => EntityReactionType::Removal(id),
        _ => EntityReactionType::Event(id),
    }
}

/// Engine K1 cannot call the real `EntityReactors::insert`: its `warn_once!` (real bevy_utils + real tracing
/// callsite atomics) makes the Kani 0.68 compiler ICE (intrinsics.rs:243).  Under K1 entries are pushed into the
/// private SmallVec directly (what `insert` does before the size warning); `insert` itself is exercised in engine K2.
#[cfg(not(engine_k2))]
fn tpush(t: &mut EntityReactors, r: EntityReactionType, h: ReactorHandle) { t.reactors.push((r, h)); }
#[cfg(engine_k2)]
fn tpush(t: &mut EntityReactors, r: EntityReactionType, h: ReactorHandle) { t.insert(r, h); }

/// Builds an arbitrary table of n <= N entries; returns shadow arrays.
fn any_table(t: &mut EntityReactors, sh_sys: &mut [u8; N], sh_rt: &mut [u8; N]) -> usize
{
    let n: usize = kani::any();
    kani::assume(n <= N);
    let mut i = 0;
    while i < n
    {
        let s = any_below(NSYS);
        let k = any_below(NRT);
        tpush(t, rtype(k), ReactorHandle::Persistent(sys(s)));
        sh_sys[i] = s; sh_rt[i] = k;
        i += 1;
    }
    n
}

/// C01: for an arbitrary table and an arbitrary queried reaction type, `iter_rtype` yields exactly the reactors of
/// the entries whose (kind, type id) equals the query, in insertion order; `count` equals that number;
/// `iter_reactors` yields every entry's reactor in order.
#[kani::proof]
#[kani::stub(core::any::TypeId::of, crate::vh::stub_typeid_of)]
#[kani::stub(<core::any::TypeId as crate::vh::PEq>::eq, crate::vh::stub_typeid_eq)]
#[kani::unwind(9)]
fn entreactors_dispatch_exact()
{
    let mut t = EntityReactors::default();
    let mut sh_sys = [0u8; N]; let mut sh_rt = [0u8; N];
    let n = any_table(&mut t, &mut sh_sys, &mut sh_rt);
    let q = any_below(NRT);

    let mut expect = [0u8; N]; let mut m = 0usize;
    let mut i = 0;
    while i < n { if sh_rt[i] == q { expect[m] = sh_sys[i]; m += 1; } i += 1; }

    let mut got = 0usize;
    for r in t.iter_rtype(rtype(q))
    {
        assert!(got < m, "C01: a reactor registered for another kind/type must not be dispatched");
        assert!(r == sys(expect[got]), "C01: matching registrations are dispatched in registration order");
        got += 1;
    }
    assert!(got == m, "C01: no matching registration is skipped");
    assert!(t.count(rtype(q)) == m, "C05: count() equals the number of reactions that will be queued");

    let mut k = 0usize;
    for r in t.iter_reactors()
    {
        assert!(r == sys(sh_sys[k]), "C16: iter_reactors lists every registration in order");
        k += 1;
    }
    assert!(k == n);
    kani::cover!(m >= 2 && m < n, "several matches among non-matches");
    kani::cover!(m == 0 && n == N, "full table, no match");
    std::mem::forget(t);
}

/// C06: `remove(rtype, id)` on an arbitrary table: afterwards NO entry (rtype, id) remains (completeness, also for
/// duplicates); every other entry is still there in the same relative order (locality); a second remove changes
/// nothing (idempotence); removing an absent pair changes nothing.
#[kani::proof]
#[kani::stub(core::any::TypeId::of, crate::vh::stub_typeid_of)]
#[kani::stub(<core::any::TypeId as crate::vh::PEq>::eq, crate::vh::stub_typeid_eq)]
#[kani::unwind(9)]
fn entreactors_remove_complete_local()
{
    let mut t = EntityReactors::default();
    let mut sh_sys = [0u8; N]; let mut sh_rt = [0u8; N];
    let n = any_table(&mut t, &mut sh_sys, &mut sh_rt);
    let q = any_below(NRT);
    let id = any_below(NSYS);

    t.remove(rtype(q), sys(id));

    // expected survivors
    let mut ex_sys = [0u8; N]; let mut ex_rt = [0u8; N]; let mut m = 0usize;
    let mut i = 0;
    while i < n { if !(sh_rt[i] == q && sh_sys[i] == id) { ex_sys[m] = sh_sys[i]; ex_rt[m] = sh_rt[i]; m += 1; } i += 1; }

    assert!(t.reactors.len() == m, "C06: exactly the entries of (rtype, reactor) are removed");
    let mut j = 0;
    while j < m
    {
        assert!(t.reactors[j].0 == rtype(ex_rt[j]) && t.reactors[j].1.sys_command() == sys(ex_sys[j]),
            "C06: other registrations survive in their original order");
        j += 1;
    }
    assert!(t.count(rtype(q)) == t.iter_rtype(rtype(q)).filter(|r| *r != sys(id)).count(),
        "C06: the revoked reactor is no longer dispatched for that trigger");

    // idempotence
    t.remove(rtype(q), sys(id));
    assert!(t.reactors.len() == m, "C06: revoking twice changes nothing");
    kani::cover!(n - m >= 2, "duplicate registrations removed together");
    kani::cover!(n == m && n > 0, "absent pair: no-op");
    kani::cover!(m > 0 && m < n, "partial removal");
    std::mem::forget(t);
}

/// C07: handles stored in an entity's table are owners of the reactor: removing the entry, or dropping the whole
/// table (entity despawned), releases them; nothing is released earlier.
#[kani::proof]
#[kani::stub(core::any::TypeId::of, crate::vh::stub_typeid_of)]
#[kani::stub(<core::any::TypeId as crate::vh::PEq>::eq, crate::vh::stub_typeid_eq)]
#[kani::unwind(9)]
fn entreactors_handle_conservation()
{
    let d = crate::ecs::auto_despawn::verif_h::mk_despawner();
    let reactor = ent(9);
    let mut t = EntityReactors::default();
    let regs: usize = kani::any();       // registrations of the ref-counted reactor on this entity (distinct rtypes)
    kani::assume(regs >= 1 && regs <= 3);
    {
        let signal = d.prepare(reactor);
        let mut i = 0;
        while i < regs { tpush(&mut t, rtype(i as u8 * 2), ReactorHandle::AutoDespawn(signal.clone())); i += 1; }
        tpush(&mut t, rtype(1), ReactorHandle::Persistent(sys(1)));
    }
    assert!(d.try_recv().is_none(), "C07: a registered reactor is not collected");
    let by_drop: bool = kani::any();
    if by_drop
    {
        drop(t);    // entity despawned: component dropped
    }
    else
    {
        let mut i = 0;
        while i < regs
        {
            assert!(d.try_recv().is_none(), "C07: reactor alive while a trigger is still registered");
            t.remove(rtype(i as u8 * 2), SystemCommand(reactor));
            i += 1;
        }
        assert!(t.reactors.len() == 1, "C06: the persistent neighbour is untouched");
        std::mem::forget(t);
    }
    assert!(d.try_recv() == Some(reactor), "C07: last registration gone => reactor collected");
    assert!(d.try_recv().is_none(), "C07: exactly once");
    kani::cover!(by_drop && regs == 3, "3 registrations released by table drop");
    kani::cover!(!by_drop && regs == 3, "3 registrations revoked one by one");
}

/// C06/C16: `ReactorType::get_entity` returns the entity for the five entity-scoped kinds and None otherwise.
#[kani::proof]
#[kani::stub(core::any::TypeId::of, crate::vh::stub_typeid_of)]
#[kani::stub(<core::any::TypeId as crate::vh::PEq>::eq, crate::vh::stub_typeid_eq)]
fn reactortype_get_entity()
{
    let e = ent(any_below(200) as u32);
    let id = TypeId::of::<TyA>();
    assert!(ReactorType::EntityInsertion(e, id).get_entity() == Some(e));
    assert!(ReactorType::EntityMutation(e, id).get_entity() == Some(e));
    assert!(ReactorType::EntityRemoval(e, id).get_entity() == Some(e));
    assert!(ReactorType::EntityEvent(e, id).get_entity() == Some(e));
    assert!(ReactorType::Despawn(e).get_entity() == Some(e));
    assert!(ReactorType::AnyEntityEvent(id).get_entity().is_none());
    assert!(ReactorType::ComponentInsertion(id).get_entity().is_none());
    assert!(ReactorType::ComponentMutation(id).get_entity().is_none());
    assert!(ReactorType::ComponentRemoval(id).get_entity().is_none());
    assert!(ReactorType::ResourceMutation(id).get_entity().is_none());
    assert!(ReactorType::Broadcast(id).get_entity().is_none());
    kani::cover!(true, "end of harness reached");
}

/// C16: `RevokeToken::iter_unique_entities` yields each entity named by the token exactly once, in first-occurrence
/// order, and nothing for type-wide triggers (so per-entity local data is cleaned up once per entity).
#[kani::proof]
#[kani::stub(core::any::TypeId::of, crate::vh::stub_typeid_of)]
#[kani::stub(<core::any::TypeId as crate::vh::PEq>::eq, crate::vh::stub_typeid_eq)]
#[kani::unwind(6)]
fn revoketoken_unique_entities()
{
    const M: usize = 4;
    let id = TypeId::of::<TyA>();
    let mut v: Vec<ReactorType> = Vec::with_capacity(M);
    let mut sh = [255u8; M];     // entity index per slot, 255 = type-wide
    let mut i = 0;
    while i < M
    {
        let k = any_below(4);    // 0..2 = entity index, 3 = type-wide
        if k < 3
        {
            let which: bool = kani::any();
            v.push(if which { ReactorType::EntityMutation(ent(k as u32), id) } else { ReactorType::Despawn(ent(k as u32)) });
            sh[i] = k;
        }
        else { v.push(ReactorType::Broadcast(id)); }
        i += 1;
    }
    let token = RevokeToken{ reactors: Arc::from(v.as_slice()), id: sys(0) };
    let mut seen = [0u8; 3];
    let mut last_first_pos = 0usize;
    for e in token.iter_unique_entities()
    {
        let idx = e.index() as usize;
        assert!(idx < 3, "only entities named by the token are yielded");
        seen[idx] += 1;
    }
    let mut k = 0;
    while k < 3
    {
        let mut named = false;
        let mut i = 0;
        while i < M { if sh[i] == k as u8 { named = true; } i += 1; }
        assert!(seen[k] == if named { 1 } else { 0 }, "C16: each named entity exactly once");
        k += 1;
    }
    kani::cover!(seen[0] == 1 && seen[1] == 1, "two distinct entities");
    std::mem::forget(token); std::mem::forget(v);
}

#[kani::proof]
#[kani::stub(core::any::TypeId::of, crate::vh::stub_typeid_of)]
#[kani::stub(<core::any::TypeId as crate::vh::PEq>::eq, crate::vh::stub_typeid_eq)]
#[kani::unwind(9)]
fn entreactors_witness()
{
    let mut t = EntityReactors::default();
    tpush(&mut t, rtype(0), ReactorHandle::Persistent(sys(1)));
    tpush(&mut t, rtype(1), ReactorHandle::Persistent(sys(2)));
    t.remove(rtype(0), sys(1));
    assert!(t.count(rtype(1)) == 1);
    assert!(false, "witness: reachable");
}
