// Harness fragment spliced inside the real `command_queue` module (white-box).
// Obligations: C12/C09 (the postponement buffer is FIFO across push / remove / append), C11 (remove() leaves the
// queue empty; append() strands nothing), C02 (no command is lost or duplicated by the buffer operations).

#[cfg(not(feature = "thorough"))] const N: usize = 3;   // stated bound: buffered commands
#[cfg(feature = "thorough")]      const N: usize = 5;

// MEASURED LIMIT: `VecDeque::append` with a symbolic-length source, and even the concrete-shape
// push/remove/retain/append sequence with a cached buffer, exhaust CBMC's memory (>12 GB, >400 s) because of the
// symbolic-size memmoves inside VecDeque; the buffer obligations are therefore the cold-start sequence (concrete
// shape, symbolic payloads) and the symbolic-length FIFO below.

/// Cold start (no cached buffer yet): remove() falls back to a fresh queue; nothing is lost, cached buffers are empty.
#[kani::proof]
#[kani::stub(core::any::TypeId::of, crate::vh::stub_typeid_of)]
#[kani::stub(<core::any::TypeId as crate::vh::PEq>::eq, crate::vh::stub_typeid_eq)]
#[kani::unwind(8)]
fn cmdqueue_cold_start()
{
    let a: u32 = kani::any(); let b: u32 = kani::any(); let x: u32 = kani::any();
    let mut q = CobwebCommandQueue::<u32>::default();
    q.push(a); q.push(b);
    let taken = q.remove();
    assert!(taken.len() == 2 && q.commands.len() == 0, "C11: remove() empties the live queue");
    q.push(x);
    q.append(taken);
    assert!(q.pop_front() == Some(x));
    assert!(q.pop_front() == Some(a), "C12/C02: kept commands return in order");
    assert!(q.pop_front() == Some(b));
    assert!(q.pop_front().is_none());
    assert!(q.buffers.len() == 1, "the emptied buffer is cached for reuse");
    assert!(q.buffers[0].len() == 0, "C11: nothing stranded in a cached buffer");
    kani::cover!(a != b);
    std::mem::forget(q);
}

/// pop_front returns arrival order; an empty append is a no-op on contents.
#[kani::proof]
#[kani::stub(core::any::TypeId::of, crate::vh::stub_typeid_of)]
#[kani::stub(<core::any::TypeId as crate::vh::PEq>::eq, crate::vh::stub_typeid_eq)]
#[kani::unwind(8)]
fn cmdqueue_fifo()
{
    let mut q = CobwebCommandQueue::<u32>::default();
    q.commands.reserve(N);
    let n: usize = kani::any();
    kani::assume(n <= N);
    let mut i = 0;
    while i < n { q.push(i as u32); i += 1; }
    q.append(std::collections::VecDeque::new());
    let mut i = 0;
    while i < n { assert!(q.pop_front() == Some(i as u32), "C12: FIFO"); i += 1; }
    assert!(q.pop_front().is_none(), "C11: drained");
    kani::cover!(n == N);
    std::mem::forget(q);
}

#[kani::proof]
#[kani::stub(core::any::TypeId::of, crate::vh::stub_typeid_of)]
#[kani::stub(<core::any::TypeId as crate::vh::PEq>::eq, crate::vh::stub_typeid_eq)]
#[kani::unwind(8)]
fn cmdqueue_witness()
{
    let mut q = CobwebCommandQueue::<u32>::default();
    q.push(1);
    let t = q.remove();
    q.append(t);
    assert!(q.pop_front() == Some(1));
    assert!(false, "witness: reachable");
}
