// Shared helpers for harness fragments (compiled only under cfg(kani)).
use bevy::prelude::Entity;

/// A concrete entity id (generation 1) for index `i`.
pub fn ent(i: u32) -> Entity { Entity::from_raw(i) }

/// A symbolic value in `0..n`.
pub fn any_below(n: u8) -> u8
{
    let x: u8 = kani::any();
    kani::assume(x < n);
    x
}
