//! Environment stub for `tracing`: every logging macro expands to nothing.
//! Logging is not the subject of any property; formatting code is the classic
//! state-explosion source for CBMC, so it is cut here (listed in every evidence file).
#[macro_export] macro_rules! trace { ($($t:tt)*) => {{}}; }
#[macro_export] macro_rules! debug { ($($t:tt)*) => {{}}; }
#[macro_export] macro_rules! info  { ($($t:tt)*) => {{}}; }
#[macro_export] macro_rules! warn  { ($($t:tt)*) => {{}}; }
#[macro_export] macro_rules! error { ($($t:tt)*) => {{}}; }
