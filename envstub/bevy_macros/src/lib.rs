//! Derive macros of the Bevy environment model (/verif/envstub/bevy).  They generate impls of the *model's*
//! traits (paths `bevy::ecs::...`), with the same surface syntax as Bevy's derives so that /repo's source
//! compiles unmodified.
use proc_macro::TokenStream;
use proc_macro2::{Group, TokenStream as TS2, TokenTree};
use quote::{format_ident, quote};
use syn::{parse_macro_input, Data, DeriveInput, Fields, GenericParam, Index};

fn marker_impl(input: TokenStream, path: TS2) -> TokenStream
{
    let mut ast = parse_macro_input!(input as DeriveInput);
    // Bevy adds `Self: Send + Sync + 'static` to the where clause.
    ast.generics.make_where_clause().predicates.push(syn::parse_quote! { Self: Send + Sync + 'static });
    let name = &ast.ident;
    let (ig, tg, wc) = ast.generics.split_for_impl();
    TokenStream::from(quote! { impl #ig #path for #name #tg #wc {} })
}

#[proc_macro_derive(Component, attributes(component, require))]
pub fn derive_component(input: TokenStream) -> TokenStream { marker_impl(input, quote!(bevy::ecs::component::Component)) }

#[proc_macro_derive(Resource)]
pub fn derive_resource(input: TokenStream) -> TokenStream { marker_impl(input, quote!(bevy::ecs::system::Resource)) }

#[proc_macro_derive(SystemSet)]
pub fn derive_system_set(input: TokenStream) -> TokenStream { marker_impl(input, quote!(bevy::ecs::schedule::SystemSet)) }

fn single_field(ast: &DeriveInput) -> (TS2, syn::Type)
{
    let Data::Struct(s) = &ast.data else { panic!("Deref derive: only structs") };
    match &s.fields {
        Fields::Unnamed(f) => { (quote!(0), f.unnamed.first().expect("one field").ty.clone()) }
        Fields::Named(f) => { let fl = f.named.first().expect("one field"); let id = fl.ident.clone().unwrap(); (quote!(#id), fl.ty.clone()) }
        Fields::Unit => panic!("Deref derive: unit struct"),
    }
}

#[proc_macro_derive(Deref, attributes(deref))]
pub fn derive_deref(input: TokenStream) -> TokenStream
{
    let ast = parse_macro_input!(input as DeriveInput);
    let name = &ast.ident;
    let (ig, tg, wc) = ast.generics.split_for_impl();
    let (acc, ty) = single_field(&ast);
    TokenStream::from(quote! {
        impl #ig ::core::ops::Deref for #name #tg #wc { type Target = #ty; fn deref(&self) -> &Self::Target { &self.#acc } }
    })
}

#[proc_macro_derive(DerefMut, attributes(deref))]
pub fn derive_deref_mut(input: TokenStream) -> TokenStream
{
    let ast = parse_macro_input!(input as DeriveInput);
    let name = &ast.ident;
    let (ig, tg, wc) = ast.generics.split_for_impl();
    let (acc, _) = single_field(&ast);
    TokenStream::from(quote! {
        impl #ig ::core::ops::DerefMut for #name #tg #wc { fn deref_mut(&mut self) -> &mut Self::Target { &mut self.#acc } }
    })
}

/// Replaces the lifetimes `'w` / `'s` in a token stream.
fn subst_lifetimes(ts: TS2, w: &str, s: &str) -> TS2
{
    let mut out = Vec::<TokenTree>::new();
    let mut iter = ts.into_iter().peekable();
    while let Some(tt) = iter.next() {
        match tt {
            TokenTree::Punct(p) if p.as_char() == '\'' => {
                if let Some(TokenTree::Ident(id)) = iter.peek() {
                    let idn = id.to_string();
                    let new = if idn == "w" { Some(w) } else if idn == "s" { Some(s) } else { None };
                    if let Some(new) = new {
                        iter.next();
                        let lt = syn::Lifetime::new(&format!("'{}", new), proc_macro2::Span::call_site());
                        out.extend(quote!(#lt));
                        continue;
                    }
                }
                out.push(TokenTree::Punct(p));
            }
            TokenTree::Group(g) => {
                let mut ng = Group::new(g.delimiter(), subst_lifetimes(g.stream(), w, s));
                ng.set_span(g.span());
                out.push(TokenTree::Group(ng));
            }
            other => out.push(other),
        }
    }
    out.into_iter().collect()
}

#[proc_macro_derive(SystemParam, attributes(system_param))]
pub fn derive_system_param(input: TokenStream) -> TokenStream
{
    let ast = parse_macro_input!(input as DeriveInput);
    let name = &ast.ident;
    let Data::Struct(st) = &ast.data else { panic!("SystemParam derive: only structs") };
    let Fields::Named(fields) = &st.fields else { panic!("SystemParam derive: only named fields") };

    // generics without the 'w / 's lifetimes (they become the GAT's parameters)
    let mut other_params = Vec::new();     // declarations (with bounds)
    let mut other_args = Vec::new();       // uses
    let mut has_w = false;
    let mut has_s = false;
    for p in ast.generics.params.iter() {
        match p {
            GenericParam::Lifetime(l) => {
                let n = l.lifetime.ident.to_string();
                if n == "w" { has_w = true; } else if n == "s" { has_s = true; }
                else { panic!("SystemParam derive: only 'w and 's lifetimes are supported"); }
            }
            GenericParam::Type(t) => { let id = &t.ident; other_params.push(quote!(#p)); other_args.push(quote!(#id)); }
            GenericParam::Const(c) => { let id = &c.ident; other_params.push(quote!(#p)); other_args.push(quote!(#id)); }
        }
    }
    let wc = ast.generics.where_clause.as_ref().map(|w| { let p = w.predicates.iter(); quote!(#(#p,)*) }).unwrap_or_default();

    let mk_args = |w: &str, s: &str| {
        let mut v = Vec::new();
        if has_w { let lt = syn::Lifetime::new(&format!("'{}", w), proc_macro2::Span::call_site()); v.push(quote!(#lt)); }
        if has_s { let lt = syn::Lifetime::new(&format!("'{}", s), proc_macro2::Span::call_site()); v.push(quote!(#lt)); }
        v.extend(other_args.iter().cloned());
        quote!(< #(#v),* >)
    };
    let self_args = mk_args("w", "s");
    let item_args = mk_args("__w", "__s");

    let mut impl_params = Vec::new();
    if has_w { impl_params.push(quote!('w)); }
    if has_s { impl_params.push(quote!('s)); }
    impl_params.extend(other_params.iter().cloned());

    let fnames: Vec<_> = fields.named.iter().map(|f| f.ident.clone().unwrap()).collect();
    let ftys_static: Vec<_> = fields.named.iter().map(|f| { let t = &f.ty; subst_lifetimes(quote!(#t), "static", "static") }).collect();
    let idx: Vec<_> = (0..fnames.len()).map(Index::from).collect();
    let _ = format_ident!("x");

    let state_args = { let v = other_args.clone(); quote!(< #(#v),* >) };
    let other_params2 = other_params.clone();

    TokenStream::from(quote! {
        const _: () = {
            use bevy::ecs::system::SystemParam as __SP;
            // wrapper with a private field so that private field types do not leak through the public trait
            #[doc(hidden)]
            pub struct __State < #(#other_params2),* > where #wc
            {
                state: ( #( <#ftys_static as __SP>::State, )* ),
                _p: ::core::marker::PhantomData<fn() -> ( #(#other_args,)* )>,
            }
            unsafe impl< #(#impl_params),* > __SP for #name #self_args
            where #wc
            {
                type State = __State #state_args;
                type Item<'__w, '__s> = #name #item_args;
                const M_DEFERRED: bool = false #( || <#ftys_static as __SP>::M_DEFERRED )*;

                fn init_state(world: &mut bevy::ecs::world::World) -> Self::State
                {
                    __State{ state: ( #( <#ftys_static as __SP>::init_state(world), )* ), _p: ::core::marker::PhantomData }
                }

                unsafe fn get_param<'__w, '__s>(
                    state: &'__s mut Self::State,
                    world: bevy::ecs::world::unsafe_world_cell::UnsafeWorldCell<'__w>,
                ) -> Self::Item<'__w, '__s>
                {
                    let state = &mut state.state;
                    #name {
                        #( #fnames: <#ftys_static as __SP>::get_param(&mut state.#idx, world), )*
                    }
                }

                fn apply(state: &mut Self::State, world: &mut bevy::ecs::world::World)
                {
                    let state = &mut state.state;
                    #( <#ftys_static as __SP>::apply(&mut state.#idx, world); )*
                }
            }
        };
    })
}

/// `all_tuples!(macro_name, start, end, Ident[, Ident...])`: invokes `macro_name!` once per tuple length in
/// `start..=end` with `Ident0, Ident1, ...` (or `(A0, B0), (A1, B1), ...` for several idents), like Bevy's.
#[proc_macro]
pub fn all_tuples(input: TokenStream) -> TokenStream
{
    let ts: TS2 = input.into();
    let parts: Vec<Vec<TokenTree>> = {
        let mut out = vec![Vec::new()];
        for tt in ts.into_iter() {
            match &tt {
                TokenTree::Punct(p) if p.as_char() == ',' => out.push(Vec::new()),
                _ => out.last_mut().unwrap().push(tt),
            }
        }
        out.into_iter().filter(|v| !v.is_empty()).collect()
    };
    assert!(parts.len() >= 4, "all_tuples!(macro, start, end, ident...)");
    let mac: TS2 = parts[0].iter().cloned().collect();
    let start: usize = parts[1].iter().cloned().collect::<TS2>().to_string().parse().unwrap();
    let end: usize = parts[2].iter().cloned().collect::<TS2>().to_string().parse().unwrap();
    let idents: Vec<String> = parts[3..].iter().map(|p| p.iter().cloned().collect::<TS2>().to_string()).collect();
    let mut out = TS2::new();
    for n in start..=end {
        let items: Vec<TS2> = (0..n).map(|i| {
            let ids: Vec<_> = idents.iter().map(|s| format_ident!("{}{}", s, i)).collect();
            if ids.len() == 1 { let a = &ids[0]; quote!(#a) } else { quote!((#(#ids),*)) }
        }).collect();
        out.extend(quote! { #mac!( #(#items),* ); });
    }
    out.into()
}
