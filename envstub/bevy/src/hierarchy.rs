//! Hierarchy model: `Children` / `Parent` components and `despawn_recursive` (E7).
use crate::world::{Component, Entity, EntityWorldMut, EntityCommands, World};

pub struct Children(pub Vec<Entity>);
impl Component for Children {}
pub struct Parent(pub Entity);
impl Component for Parent {}
impl Parent { pub fn get(&self) -> Entity { self.0 } }
impl Children { pub fn iter(&self) -> impl Iterator<Item = &Entity> { self.0.iter() } }

fn despawn_with_children(world: &mut World, entity: Entity)
{
    // detach from the parent's list
    if let Some(parent) = world.get::<Parent>(entity).map(|p| p.0)
    {
        if let Some(mut ch) = world.get_mut::<Children>(parent)
        {
            let mut i = 0;
            while i < ch.0.len() { if ch.0[i] == entity { ch.0.remove(i); break; } i += 1; }
        }
    }
    despawn_rec(world, entity);
}

fn despawn_rec(world: &mut World, entity: Entity)
{
    let children = match world.m_remove_component::<Children>(entity) { Some(c) => c.0, None => Vec::new() };
    let mut i = 0;
    while i < children.len() { despawn_rec(world, children[i]); i += 1; }
    world.despawn(entity);
}

pub trait DespawnRecursiveExt
{
    fn despawn_recursive(self);
    fn despawn_descendants(&mut self) -> &mut Self;
}
impl<'w> DespawnRecursiveExt for EntityWorldMut<'w>
{
    fn despawn_recursive(self)
    {
        let entity = self.id();
        let world = self.into_world_mut();
        despawn_with_children(world, entity);
    }
    fn despawn_descendants(&mut self) -> &mut Self { unreachable!("despawn_descendants is not modelled") }
}
impl<'a> DespawnRecursiveExt for EntityCommands<'a>
{
    fn despawn_recursive(mut self)
    {
        let entity = self.id();
        self.commands().queue(move |w: &mut World| { if w.m_alive(entity) { despawn_with_children(w, entity); } });
    }
    fn despawn_descendants(&mut self) -> &mut Self { unreachable!("despawn_descendants is not modelled") }
}

pub trait BuildChildren
{
    fn add_child(&mut self, child: Entity) -> &mut Self;
    fn set_parent(&mut self, parent: Entity) -> &mut Self;
}
impl<'w> BuildChildren for EntityWorldMut<'w>
{
    fn add_child(&mut self, child: Entity) -> &mut Self
    {
        let me = self.id();
        self.world_scope(|w| m_link(w, me, child));
        self
    }
    fn set_parent(&mut self, parent: Entity) -> &mut Self
    {
        let me = self.id();
        self.world_scope(|w| m_link(w, parent, me));
        self
    }
}

/// verification-only: make `child` a child of `parent`
pub fn m_link(world: &mut World, parent: Entity, child: Entity)
{
    if world.m_has::<Children>(parent) { world.get_mut::<Children>(parent).unwrap().0.push(child); }
    else { world.m_insert_component(parent, Children(vec![child])); }
    world.m_insert_component(child, Parent(parent));
}
