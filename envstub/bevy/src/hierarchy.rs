//! Hierarchy model: `Children` / `Parent` components and `despawn_recursive` (E7).
use crate::world::{Component, Entity, EntityWorldMut, EntityCommands, World};

/// up to `MAX_CHILDREN` children per entity (inline array: see world.rs on why the model avoids heap containers)
pub const MAX_CHILDREN: usize = 3;
pub struct Children { pub items: [Entity; MAX_CHILDREN], pub n: usize }
impl Component for Children {}
pub struct Parent(pub Entity);
impl Component for Parent {}
impl Parent { pub fn get(&self) -> Entity { self.0 } }
impl Children
{
    pub fn iter(&self) -> impl Iterator<Item = &Entity> { self.items[..self.n].iter() }
    fn push(&mut self, e: Entity)
    {
        if self.n >= MAX_CHILDREN { panic!("model capacity exceeded: MAX_CHILDREN"); }
        self.items[self.n] = e;
        self.n += 1;
    }
}

/// Despawns the entity and its descendants (E7).  Written without recursion and without loops: descendants are
/// gathered breadth-first into a fixed list (CBMC would unwind a recursive version to the bound at every level).
fn despawn_with_children(world: &mut World, entity: Entity)
{
    // detach from the parent's list
    if let Some(parent) = world.get::<Parent>(entity).map(|p| p.0)
    {
        if let Some(mut ch) = world.get_mut::<Children>(parent)
        {
            let n = ch.n;
            crate::m_unrolled!(i in [0, 1, 2]
            {
                if i < n && ch.items[i] == entity { ch.items[i] = ch.items[n - 1]; ch.n = n - 1; }
            });
        }
    }
    // fast path: no children
    if !world.m_has::<Children>(entity) { world.despawn(entity); return; }
    let mut list = [Entity::PLACEHOLDER; crate::world::MAX_ENTITIES];
    let mut n = 1;
    list[0] = entity;
    crate::m_unrolled!(idx in [0, 1, 2, 3, 4, 5]
    {
        if idx < n
        {
            if let Some(ch) = world.m_remove_component::<Children>(list[idx])
            {
                crate::m_unrolled!(c in [0, 1, 2]
                {
                    if c < ch.n
                    {
                        if n >= crate::world::MAX_ENTITIES { panic!("model capacity exceeded: descendants"); }
                        list[n] = ch.items[c];
                        n += 1;
                    }
                });
            }
        }
    });
    // descendants first, the entity itself last
    crate::m_unrolled!(idx in [5, 4, 3, 2, 1, 0] { if idx < n { world.despawn(list[idx]); } });
}

pub trait DespawnRecursiveExt
{
    fn despawn_recursive(self);
    fn despawn_descendants(&mut self) -> &mut Self;
}
impl<'w> DespawnRecursiveExt for EntityWorldMut<'w>
{
    fn despawn_recursive(self)
    {
        let entity = self.id();
        let world = self.into_world_mut();
        despawn_with_children(world, entity);
    }
    fn despawn_descendants(&mut self) -> &mut Self { unreachable!("despawn_descendants is not modelled") }
}
impl<'a> DespawnRecursiveExt for EntityCommands<'a>
{
    fn despawn_recursive(mut self)
    {
        let entity = self.id();
        self.commands().queue(move |w: &mut World| { if w.m_alive(entity) { despawn_with_children(w, entity); } });
    }
    fn despawn_descendants(&mut self) -> &mut Self { unreachable!("despawn_descendants is not modelled") }
}

pub trait BuildChildren
{
    fn add_child(&mut self, child: Entity) -> &mut Self;
    fn set_parent(&mut self, parent: Entity) -> &mut Self;
}
impl<'w> BuildChildren for EntityWorldMut<'w>
{
    fn add_child(&mut self, child: Entity) -> &mut Self
    {
        let me = self.id();
        self.world_scope(|w| m_link(w, me, child));
        self
    }
    fn set_parent(&mut self, parent: Entity) -> &mut Self
    {
        let me = self.id();
        self.world_scope(|w| m_link(w, parent, me));
        self
    }
}

/// verification-only: make `child` a child of `parent`
pub fn m_link(world: &mut World, parent: Entity, child: Entity)
{
    if world.m_has::<Children>(parent) { world.get_mut::<Children>(parent).unwrap().push(child); }
    else { let mut c = Children{ items: [Entity::PLACEHOLDER; MAX_CHILDREN], n: 0 }; c.push(child); world.m_insert_component(parent, c); }
    world.m_insert_component(child, Parent(parent));
}
