//! Type-erased owned cell addressed by `TypeId`: `(TypeId, *mut ())`.
//!
//! Typed reads are a `TypeId` comparison plus a pointer cast - no vtable and no function pointer for CBMC to
//! resolve.  A cell has no drop glue of its own: the model drops cells explicitly through a *typed dispatch
//! table declared by the harness* (`DropList`), because CBMC's function-pointer removal would otherwise make
//! every type ever stored in any cell a candidate at every drop (DESIGN.md section 1, P3).  A type missing
//! from the table is a loud failure, never a silent leak.
use core::any::TypeId;

/// Integer key of a type.
///
/// Under Kani the key is the address of a per-type monomorphic function: CBMC folds comparisons of such
/// addresses to constants during symbolic execution, so "is this cell an X" / "is this the captured command
/// type" are decided statically and the untaken branch is never explored.  `TypeId` itself is an array of
/// pointers whose `==` transmutes to `u128`; neither it nor its 64-bit hash folds (measured), which made every
/// typed lookup a symbolic branch (50 s for the second component inserted on an entity).
/// Natively (witness / conformance builds) the key is the 64 bits `TypeId`'s `Hash` impl feeds to a hasher.
pub type TypeKey = usize;

#[cfg(kani)]
fn type_marker<T: 'static>() -> &'static str { core::any::type_name::<T>() }
#[cfg(kani)]
pub fn type_key<T: 'static>() -> TypeKey { type_marker::<T> as usize }

#[cfg(not(kani))]
struct KeyHasher(u64);
#[cfg(not(kani))]
impl core::hash::Hasher for KeyHasher
{
    fn finish(&self) -> u64 { self.0 }
    fn write(&mut self, _: &[u8]) { unreachable!("TypeId hashes through write_u64") }
    fn write_u64(&mut self, x: u64) { self.0 = x; }
}
#[cfg(not(kani))]
pub fn type_key<T: 'static>() -> TypeKey
{
    use core::hash::Hash;
    let mut h = KeyHasher(0);
    TypeId::of::<T>().hash(&mut h);
    (h.0 | 1) as usize
}

pub struct ErasedCell
{
    pub tid: TypeKey,
    ptr: *mut (),
}

impl ErasedCell
{
    /// an empty slot of a fixed-capacity table
    pub const EMPTY: ErasedCell = ErasedCell{ tid: 0, ptr: core::ptr::null_mut() };
    pub fn is_empty_slot(&self) -> bool { self.ptr.is_null() }

    pub fn new<T: 'static>(value: T) -> Self
    {
        Self{ tid: type_key::<T>(), ptr: Box::into_raw(Box::new(value)) as *mut () }
    }
    pub fn is<T: 'static>(&self) -> bool { self.tid == type_key::<T>() }
    pub fn get<T: 'static>(&self) -> Option<&T>
    {
        if self.is::<T>() { Some(unsafe { &*(self.ptr as *const T) }) } else { None }
    }
    pub fn get_mut<T: 'static>(&mut self) -> Option<&mut T>
    {
        if self.is::<T>() { Some(unsafe { &mut *(self.ptr as *mut T) }) } else { None }
    }
    pub fn raw<T: 'static>(&self) -> *mut T { self.ptr as *mut T }
    /// Takes the value out (panics on a type mismatch).
    pub fn take<T: 'static>(self) -> T
    {
        assert!(self.is::<T>(), "ErasedCell::take: type mismatch");
        unsafe { *Box::from_raw(self.ptr as *mut T) }
    }
}

// The model is single-threaded (Kani has no concurrency); the real types are Send + Sync by their bounds.
unsafe impl Send for ErasedCell {}
unsafe impl Sync for ErasedCell {}

/// A closed list of types a harness expects to see dropped (components, resources).
pub trait DropList
{
    fn drop_cell(cell: ErasedCell);
}
impl DropList for ()
{
    fn drop_cell(_: ErasedCell) { panic!("a value was dropped by the world model but the harness declared no drop table") }
}
/// Drop table that leaks every value: for harnesses in which the effects of dropping a component or resource are
/// not the subject (stated in the obligation's bounds).
pub struct LeakAll;
impl DropList for LeakAll { fn drop_cell(cell: ErasedCell) { core::mem::forget(cell); } }

macro_rules! drop_list {
    ($($n:ident),*) => {
        impl<$($n: 'static),*> DropList for ($($n,)*)
        {
            fn drop_cell(cell: ErasedCell)
            {
                $( if cell.is::<$n>() { drop(cell.take::<$n>()); return; } )*
                panic!("a value of a type missing from the harness's drop table was dropped by the world model");
            }
        }
    }
}
drop_list!(A);
drop_list!(A, B);
drop_list!(A, B, C);
drop_list!(A, B, C, D);
drop_list!(A, B, C, D, E);
drop_list!(A, B, C, D, E, F);
drop_list!(A, B, C, D, E, F, G);
drop_list!(A, B, C, D, E, F, G, H);
