//! Data-structure models shared by the environment stub.
pub mod maps;
pub mod cell;
