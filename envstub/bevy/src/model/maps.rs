//! `bevy::utils::{HashMap, HashSet}` modelled as association lists.
//!
//! hashbrown + ahash are not tractable for CBMC in this sandbox (DESIGN.md section 1, P6: five concrete
//! operations did not finish in 8 min).  None of the properties is about hashing, so the map is an
//! environment stub with the contract of a map: at most one value per key, `get` after `insert` returns
//! the value, `remove` deletes exactly that key.  Iteration order = insertion order (real maps give no
//! order guarantee, and the real code does not rely on one).
use core::hash::{Hash, Hasher};

/// Capacity of a model map / set (exceeding it is a loud failure).
pub const MAX_MAP: usize = 4;

pub struct HashMap<K, V>
{
    /// verification-only: the entries, in insertion order: `m_entries[..m_len]` are `Some`
    pub m_entries: [Option<(K, V)>; MAX_MAP],
    pub m_len: usize,
}

impl<K, V> Default for HashMap<K, V> { fn default() -> Self { Self{ m_entries: [None, None, None, None], m_len: 0 } } }

pub enum Entry<'a, K, V>
{
    Occupied(&'a mut V),
    Vacant(&'a mut HashMap<K, V>, K),
}

impl<'a, K: Eq, V> Entry<'a, K, V>
{
    pub fn or_insert_with(self, f: impl FnOnce() -> V) -> &'a mut V
    {
        match self
        {
            Entry::Occupied(v) => v,
            Entry::Vacant(map, k) =>
            {
                let n = map.m_push(k, f());
                match &mut map.m_entries[n] { Some(e) => &mut e.1, None => unreachable!() }
            }
        }
    }
    pub fn or_insert(self, v: V) -> &'a mut V { self.or_insert_with(move || v) }
    pub fn or_default(self) -> &'a mut V where V: Default { self.or_insert_with(V::default) }
}

impl<K: Eq, V> HashMap<K, V>
{
    pub fn new() -> Self { Self::default() }
    pub fn with_capacity(_: usize) -> Self { Self::default() }
    pub fn len(&self) -> usize { self.m_len }
    pub fn is_empty(&self) -> bool { self.m_len == 0 }

    fn m_push(&mut self, k: K, v: V) -> usize
    {
        if self.m_len >= MAX_MAP { panic!("model capacity exceeded: MAX_MAP"); }
        let n = self.m_len;
        // the slot is `None` (invariant); written without running drop glue for the old value, which CBMC could not
        // prove to be `None` and would otherwise explore symbolically (drop of a `V`)
        unsafe { core::ptr::write(&mut self.m_entries[n], Some((k, v))); }
        self.m_len = n + 1;
        n
    }

    fn pos(&self, k: &K) -> Option<usize>
    {
        let mut found = None;
        crate::m_unrolled!(i in [3, 2, 1, 0]
        {
            if i < self.m_len { if let Some(e) = &self.m_entries[i] { if e.0 == *k { found = Some(i); } } }
        });
        found
    }

    pub fn contains_key(&self, k: &K) -> bool { self.pos(k).is_some() }
    pub fn get(&self, k: &K) -> Option<&V>
    {
        match self.pos(k) { Some(i) => self.m_entries[i].as_ref().map(|e| &e.1), None => None }
    }
    pub fn get_mut(&mut self, k: &K) -> Option<&mut V>
    {
        match self.pos(k) { Some(i) => self.m_entries[i].as_mut().map(|e| &mut e.1), None => None }
    }
    pub fn insert(&mut self, k: K, v: V) -> Option<V>
    {
        match self.pos(&k)
        {
            Some(i) => match &mut self.m_entries[i] { Some(e) => Some(core::mem::replace(&mut e.1, v)), None => unreachable!() },
            None => { self.m_push(k, v); None }
        }
    }
    /// Deletes exactly that key; the last entry takes its place (a map has no order).
    pub fn remove(&mut self, k: &K) -> Option<V>
    {
        let i = self.pos(k)?;
        let last = self.m_len - 1;
        let moved = self.m_entries[last].take();
        let removed = if i == last { moved } else { core::mem::replace(&mut self.m_entries[i], moved) };
        self.m_len = last;
        removed.map(|e| e.1)
    }
    pub fn entry(&mut self, k: K) -> Entry<'_, K, V>
    {
        match self.pos(&k)
        {
            Some(i) => match &mut self.m_entries[i] { Some(e) => Entry::Occupied(&mut e.1), None => unreachable!() },
            None => Entry::Vacant(self, k),
        }
    }
    pub fn iter(&self) -> impl Iterator<Item = (&K, &V)> { self.m_entries[..self.m_len].iter().flatten().map(|(k, v)| (k, v)) }
    pub fn iter_mut(&mut self) -> impl Iterator<Item = (&K, &mut V)> { let n = self.m_len; self.m_entries[..n].iter_mut().flatten().map(|(k, v)| (&*k, v)) }
    pub fn keys(&self) -> impl Iterator<Item = &K> { self.iter().map(|(k, _)| k) }
    pub fn values(&self) -> impl Iterator<Item = &V> { self.iter().map(|(_, v)| v) }
    pub fn clear(&mut self) { crate::m_unrolled!(i in [0, 1, 2, 3] { self.m_entries[i] = None; }); self.m_len = 0; }
}

pub struct HashSet<K>
{
    pub m_items: [Option<K>; MAX_MAP],
    pub m_len: usize,
}

impl<K> Default for HashSet<K> { fn default() -> Self { Self{ m_items: [None, None, None, None], m_len: 0 } } }

impl<K: Eq> HashSet<K>
{
    pub fn new() -> Self { Self::default() }
    pub fn len(&self) -> usize { self.m_len }
    pub fn is_empty(&self) -> bool { self.m_len == 0 }
    fn pos(&self, k: &K) -> Option<usize>
    {
        let mut found = None;
        crate::m_unrolled!(i in [3, 2, 1, 0]
        {
            if i < self.m_len { if let Some(x) = &self.m_items[i] { if *x == *k { found = Some(i); } } }
        });
        found
    }
    pub fn contains(&self, k: &K) -> bool { self.pos(k).is_some() }
    pub fn insert(&mut self, k: K) -> bool
    {
        if self.contains(&k) { return false; }
        if self.m_len >= MAX_MAP { panic!("model capacity exceeded: MAX_MAP"); }
        unsafe { core::ptr::write(&mut self.m_items[self.m_len], Some(k)); }
        self.m_len += 1;
        true
    }
    pub fn remove(&mut self, k: &K) -> bool
    {
        let Some(i) = self.pos(k) else { return false; };
        let last = self.m_len - 1;
        let moved = self.m_items[last].take();
        if i != last { let old = core::mem::replace(&mut self.m_items[i], moved); drop(old); } else { drop(moved); }
        self.m_len = last;
        true
    }
    pub fn iter(&self) -> impl Iterator<Item = &K> { self.m_items[..self.m_len].iter().flatten() }
}

/// `bevy::utils::AHasher` model: FNV-1a over the written bytes.  Only `SysName::new` uses it; the contract the
/// real code needs is "equal inputs hash equally" (distinct inputs may collide in the real hasher too).
#[derive(Clone)]
pub struct AHasher(u64);
impl Default for AHasher { fn default() -> Self { AHasher(0xcbf29ce484222325) } }
impl Hasher for AHasher
{
    fn finish(&self) -> u64 { self.0 }
    fn write(&mut self, bytes: &[u8])
    {
        let mut i = 0;
        while i < bytes.len() { self.0 = (self.0 ^ bytes[i] as u64).wrapping_mul(0x100000001b3); i += 1; }
    }
}
