//! World model: entities with generations, typed component and resource cells, FIFO command queues.
use crate::model::cell::{ErasedCell, TypeKey, type_key};
use crate::ecs::world::error::EntityFetchError;
use core::any::TypeId;
use core::marker::PhantomData;
use core::ops::{Deref, DerefMut};

//-------------------------------------------------------------------------------------------------------------------
// Entity
//-------------------------------------------------------------------------------------------------------------------

/// Entity id = (index, generation).  E2: despawn bumps the slot's generation, so a stale id never aliases.
#[derive(Copy, Clone, Eq, PartialEq, Hash, PartialOrd, Ord)]
pub struct Entity
{
    index: u32,
    generation: u32,
}

impl Entity
{
    pub const PLACEHOLDER: Entity = Entity::from_raw(u32::MAX);
    pub const fn from_raw(index: u32) -> Entity { Entity{ index, generation: 1 } }
    pub const fn index(self) -> u32 { self.index }
    pub const fn generation(self) -> u32 { self.generation }
    pub const fn to_bits(self) -> u64 { ((self.generation as u64) << 32) | self.index as u64 }
    /// verification-only: an id with an explicit generation (for stale ids)
    pub const fn m_new(index: u32, generation: u32) -> Entity { Entity{ index, generation } }
}

impl core::fmt::Debug for Entity
{
    fn fmt(&self, f: &mut core::fmt::Formatter<'_>) -> core::fmt::Result { f.write_str("Entity") }
}

//-------------------------------------------------------------------------------------------------------------------
// Components, bundles
//-------------------------------------------------------------------------------------------------------------------

pub trait Component: Send + Sync + 'static {}

pub trait Bundle: Send + Sync + 'static
{
    fn m_insert_into(self, world: &mut World, entity: Entity);
}

impl<C: Component> Bundle for C
{
    fn m_insert_into(self, world: &mut World, entity: Entity) { world.m_insert_component(entity, self); }
}
impl Bundle for () { fn m_insert_into(self, _: &mut World, _: Entity) {} }
macro_rules! bundle_tuple {
    ($($n:ident),*) => {
        impl<$($n: Bundle),*> Bundle for ($($n,)*)
        {
            #[allow(non_snake_case)]
            fn m_insert_into(self, world: &mut World, entity: Entity)
            {
                let ($($n,)*) = self;
                $( $n.m_insert_into(world, entity); )*
            }
        }
    }
}
bundle_tuple!(A);
bundle_tuple!(A, B);
bundle_tuple!(A, B, C);
bundle_tuple!(A, B, C, D);
bundle_tuple!(A, B, C, D, E);

pub trait FromWorld { fn from_world(world: &mut World) -> Self; }
impl<T: Default> FromWorld for T { fn from_world(_: &mut World) -> Self { T::default() } }

#[derive(Copy, Clone, Debug, Eq, PartialEq)]
pub struct Tick(pub u32);

pub trait DetectChanges
{
    fn is_added(&self) -> bool;
    fn is_changed(&self) -> bool;
    fn last_changed(&self) -> Tick;
}
pub trait DetectChangesMut: DetectChanges
{
    fn set_changed(&mut self);
}

/// Mutable borrow of a component or resource (change ticks are not modelled).
pub struct Mut<'a, T: ?Sized>
{
    pub(crate) value: &'a mut T,
}
impl<'a, T: ?Sized> Mut<'a, T>
{
    pub fn into_inner(self) -> &'a mut T { self.value }
    pub fn reborrow(&mut self) -> Mut<'_, T> { Mut{ value: self.value } }
    pub fn as_mut(&mut self) -> &mut T { self.value }
}
impl<'a, T: ?Sized> Deref for Mut<'a, T> { type Target = T; fn deref(&self) -> &T { self.value } }
impl<'a, T: ?Sized> DerefMut for Mut<'a, T> { fn deref_mut(&mut self) -> &mut T { self.value } }
impl<'a, T: ?Sized> DetectChanges for Mut<'a, T>
{
    fn is_added(&self) -> bool { unreachable!("change detection is not modelled") }
    fn is_changed(&self) -> bool { unreachable!("change detection is not modelled") }
    fn last_changed(&self) -> Tick { unreachable!("change detection is not modelled") }
}

//-------------------------------------------------------------------------------------------------------------------
// Commands
//-------------------------------------------------------------------------------------------------------------------

pub trait Command: Send + 'static
{
    fn apply(self, world: &mut World);
}

impl<F: FnOnce(&mut World) + Send + 'static> Command for F
{
    fn apply(self, world: &mut World) { self(world) }
}

/// One queued command: a type-erased value.  It is applied through the world's typed apply table (`ApplyList`),
/// never through a per-command function pointer (see `model::cell`).
pub struct ErasedCommand
{
    pub cell: ErasedCell,
    /// monomorphic apply function; used ONLY by the opt-in applier `apply_via_fn_pointer` (harnesses whose reachable
    /// command types are few and include closures that cannot be named, e.g. the cleanup closure queued by
    /// `run_initialized_system` for exclusive systems)
    apply_fn: Option<unsafe fn(ErasedCell, &mut World)>,
}
unsafe fn apply_erased<C: Command>(cell: ErasedCell, world: &mut World) { cell.take::<C>().apply(world) }

/// opt-in applier: dispatches through the command's own function pointer (see `ErasedCommand::apply_fn`)
pub fn apply_via_fn_pointer(cmd: ErasedCommand, world: &mut World)
{
    match cmd.apply_fn { Some(f) => unsafe { f(cmd.cell, world) }, None => panic!("empty command slot applied") }
}

impl ErasedCommand
{
    pub const EMPTY: ErasedCommand = ErasedCommand{ cell: ErasedCell::EMPTY, apply_fn: None };
    pub fn new<C: Command>(c: C) -> Self { Self{ cell: ErasedCell::new(c), apply_fn: Some(apply_erased::<C>) } }
    pub fn is<C: Command>(&self) -> bool { self.cell.is::<C>() }
    /// verification-only: typed extraction (panics on mismatch)
    pub fn m_take<C: Command>(self) -> C { self.cell.take::<C>() }
    pub fn m_get<C: Command>(&self) -> Option<&C> { self.cell.get::<C>() }
}

/// A closed list of command types a harness lets the model apply when a queue is flushed.
pub trait ApplyList
{
    fn apply_cmd(cmd: ErasedCommand, world: &mut World);
}
impl ApplyList for ()
{
    fn apply_cmd(_: ErasedCommand, _: &mut World) { panic!("a queued command was flushed but the harness declared no apply table") }
}
macro_rules! apply_list {
    ($($n:ident),*) => {
        impl<$($n: Command),*> ApplyList for ($($n,)*)
        {
            fn apply_cmd(cmd: ErasedCommand, world: &mut World)
            {
                $( if cmd.is::<$n>() { cmd.m_take::<$n>().apply(world); return; } )*
                panic!("a queued command of a type missing from the harness's apply table was flushed");
            }
        }
    }
}
apply_list!(A);
apply_list!(A, B);
apply_list!(A, B, C);
apply_list!(A, B, C, D);
apply_list!(A, B, C, D, E);
apply_list!(A, B, C, D, E, F);

/// Verification-only switches of the model, kept in globals (not in `World`) because CBMC keeps globals constant
/// during symbolic execution, so the branches they select are decided statically and the unselected ones
/// (e.g. applying a `ReactionCommand` at once, which would pull the whole runner into every `queue` call site)
/// are never explored.  A Kani harness starts from the initial values; one `World` per harness.
pub mod mstate
{
    use super::*;
    pub static mut CMD_MODE: CmdMode = CmdMode::Record;
    /// (non-zero "no capture" value and a non-zero counter base: a zero-initialised `static mut` can share storage with
    /// the standard library's zero constants under Kani 0.68 - see envstub/crossbeam)
    pub const NO_CAPTURE: TypeKey = 0x5EED_0000_0000_0400;
    pub const QUEUED_BASE: usize = 0x5EED_0000_0000_0500;
    pub static mut CAPTURE_KEY: TypeKey = NO_CAPTURE;
    pub const NO_PTR: *mut () = 0x5EED_0600 as *mut ();
    pub static mut CAPTURE_PTR: *mut () = NO_PTR;
    pub static mut DROPPER: fn(ErasedCell) = <() as crate::model::cell::DropList>::drop_cell;
    pub static mut APPLIER: fn(ErasedCommand, &mut World) = <() as ApplyList>::apply_cmd;
    /// number of `Commands::queue` calls so far (any queue, any mode)
    pub static mut QUEUED: usize = QUEUED_BASE;
}

/// What `Commands::queue` does with a command (verification-only switch; default `Record` = Bevy's behaviour).
#[derive(Copy, Clone, Eq, PartialEq, Debug)]
#[repr(u8)]
pub enum CmdMode
{
    /// the command is appended to the queue and applied when the queue is flushed (E1)
    /// (explicit non-zero discriminants: the value lives in a `static mut`, see `mstate`)
    Record = 0x5A,
    /// the command is applied at once, statically dispatched (used where only the *effect* of a queued command is
    /// the subject and its type cannot be named, e.g. the closures queued by `commands.syscall(..)`)
    Immediate = 0xA5,
}

/// Capacities of the model's tables.  Fixed-size inline arrays instead of `Vec`s: CBMC keeps constant indices
/// and lengths constant, there is no reallocation path to explore, and a symbolic index is an array read
/// instead of a pointer case split.  Exceeding a capacity is a loud failure (`panic!`), never a truncation.
/// Loop-free iteration over the constant index lists below (the model contains no loops of its own, so a
/// harness's unwind bound only concerns /repo's code and the harness).
#[macro_export]
macro_rules! m_unrolled {
    ($i:ident in [$($k:literal),*] $body:block) => { $( { let $i: usize = $k; $body } )* };
}
pub const MAX_ENTITIES: usize = 6;
pub const MAX_COMPS: usize = 5;
pub const MAX_RES: usize = 14;
pub const MAX_CMDS: usize = 8;
pub const MAX_REMOVED: usize = 8;

/// FIFO queue of commands (E1).
pub struct CommandQueue
{
    /// verification-only: the queued commands, oldest first: `m_items[m_head..m_len]`
    pub m_items: [ErasedCommand; MAX_CMDS],
    pub m_head: usize,
    pub m_len: usize,
}
impl Default for CommandQueue
{
    fn default() -> Self { Self{ m_items: [ErasedCommand::EMPTY; MAX_CMDS], m_head: 0, m_len: 0 } }
}

impl CommandQueue
{
    pub fn push<C: Command>(&mut self, c: C) { self.m_push_erased(ErasedCommand::new(c)); }
    pub fn m_push_erased(&mut self, c: ErasedCommand)
    {
        if self.m_len >= MAX_CMDS { panic!("model capacity exceeded: MAX_CMDS"); }
        self.m_items[self.m_len] = c;
        self.m_len += 1;
    }
    pub fn is_empty(&self) -> bool { self.m_head >= self.m_len }
    pub fn len(&self) -> usize { self.m_len - self.m_head }
    pub fn m_pop(&mut self) -> Option<ErasedCommand>
    {
        if self.is_empty() { return None; }
        let cmd = core::mem::replace(&mut self.m_items[self.m_head], ErasedCommand::EMPTY);
        self.m_head += 1;
        Some(cmd)
    }
    /// verification-only: the i-th pending command
    pub fn m_peek(&self, i: usize) -> &ErasedCommand { &self.m_items[self.m_head + i] }
    pub fn m_take_all(&mut self) -> CommandQueue { core::mem::take(self) }
    /// Applies every queued command in order; after each command the world's own queue is flushed, so commands
    /// queued by a command run before the next one (Bevy 0.15 `RawCommandQueue::apply_or_drop_queued`).
    pub fn apply(&mut self, world: &mut World)
    {
        world.flush_entities();
        world.flush_commands();
        if self.is_empty() { return; }
        let mut items = self.m_take_all();
        while let Some(cmd) = items.m_pop()
        {
            (unsafe { mstate::APPLIER })(cmd, world);
            world.flush();
        }
    }
    pub fn append(&mut self, other: &mut CommandQueue)
    {
        while let Some(cmd) = other.m_pop() { self.m_push_erased(cmd); }
    }
}

pub struct NoopCommand;
impl Command for NoopCommand { fn apply(self, _: &mut World) {} }

/// `EntityCommands::{insert,try_insert}` as a nameable command.
pub struct InsertCommand<B: Bundle>
{
    pub entity: Entity,
    pub bundle: B,
    /// `try_insert`: silently does nothing if the entity is gone; `insert`: panics (like Bevy 0.15)
    pub try_: bool,
}
impl<B: Bundle> Command for InsertCommand<B>
{
    fn apply(self, w: &mut World)
    {
        if !w.m_alive(self.entity)
        {
            if self.try_ { return; }
            panic!("EntityCommands::insert: entity does not exist");
        }
        self.bundle.m_insert_into(w, self.entity);
    }
}
pub struct RemoveCommand<C: Component>(pub Entity, pub PhantomData<C>);
impl<C: Component> Command for RemoveCommand<C>
{
    fn apply(self, w: &mut World) { if w.m_alive(self.0) { w.m_remove_and_drop::<C>(self.0); } }
}
pub struct DespawnCommand(pub Entity);
impl Command for DespawnCommand { fn apply(self, w: &mut World) { w.despawn(self.0); } }
pub struct InsertResourceCommand<R: crate::system::Resource>(pub R);
impl<R: crate::system::Resource> Command for InsertResourceCommand<R> { fn apply(self, w: &mut World) { w.insert_resource(self.0); } }
pub struct RemoveResourceCommand<R: crate::system::Resource>(pub PhantomData<R>);
impl<R: crate::system::Resource> Command for RemoveResourceCommand<R>
{
    fn apply(self, w: &mut World) { if let Some(cell) = w.m_take_resource_cell::<R>() { (unsafe { mstate::DROPPER })(cell); } }
}

pub struct Commands<'w, 's>
{
    pub(crate) world: *mut World,
    pub(crate) queue: *mut CommandQueue,
    pub(crate) _p: PhantomData<(&'w (), &'s mut ())>,
}

impl<'w, 's> Commands<'w, 's>
{
    /// verification-only / model-internal: commands writing into `queue`, reserving ids in `world`.
    pub fn m_new(world: *mut World, queue: *mut CommandQueue) -> Self { Self{ world, queue, _p: PhantomData } }

    pub fn reborrow(&mut self) -> Commands<'w, '_> { Commands{ world: self.world, queue: self.queue, _p: PhantomData } }

    pub fn queue<C: Command>(&mut self, c: C)
    {
        unsafe
        {
            mstate::QUEUED += 1;
            // typed capture (verification-only): commands of the designated type go to the harness's typed buffer
            if mstate::CAPTURE_KEY == type_key::<C>()
            {
                (*(mstate::CAPTURE_PTR as *mut Vec<C>)).push(c);
                return;
            }
            match mstate::CMD_MODE
            {
                CmdMode::Record => (*self.queue).push(c),
                CmdMode::Immediate => { (*self.world).flush_entities(); c.apply(&mut *self.world) }
            }
        }
    }

    /// verification-only: `queue` without the verification switches (always Bevy's behaviour: append to the queue).
    /// Harnesses that flush runner-bound commands stub `Commands::queue` with this (`#[kani::stub]`), so that the
    /// "apply at once" branch, which would pull the runner into every `queue` call site, does not exist at all.
    pub fn m_queue_record<C: Command>(&mut self, c: C)
    {
        unsafe { mstate::QUEUED += 1; (*self.queue).push(c) }
    }

    pub fn spawn_empty(&mut self) -> EntityCommands<'_>
    {
        let entity = unsafe { (*self.world).m_reserve_entity() };
        EntityCommands{ entity, commands: self.reborrow() }
    }

    pub fn spawn<B: Bundle>(&mut self, bundle: B) -> EntityCommands<'_>
    {
        let mut ec = self.spawn_empty();
        ec.insert(bundle);
        ec
    }

    /// Panics if the entity does not exist (like Bevy).
    pub fn entity(&mut self, entity: Entity) -> EntityCommands<'_>
    {
        match self.get_entity(entity) { Some(ec) => ec, None => panic!("Commands::entity: entity does not exist") }
    }

    /// `Some` iff the id is alive or reserved at the time of the call (E2).
    pub fn get_entity(&mut self, entity: Entity) -> Option<EntityCommands<'_>>
    {
        let exists = unsafe { (*self.world).m_contains_or_reserved(entity) };
        if exists { Some(EntityCommands{ entity, commands: self.reborrow() }) } else { None }
    }

    pub fn insert_resource<R: crate::system::Resource>(&mut self, r: R)
    {
        self.queue(InsertResourceCommand(r));
    }
    pub fn remove_resource<R: crate::system::Resource>(&mut self)
    {
        self.queue(RemoveResourceCommand::<R>(PhantomData));
    }
    pub fn init_resource<R: crate::system::Resource + FromWorld>(&mut self)
    {
        self.queue(move |w: &mut World| { w.init_resource::<R>(); });
    }
    pub fn append(&mut self, other: &mut CommandQueue) { unsafe { (*self.queue).append(other) } }
}

pub struct EntityCommands<'a>
{
    pub(crate) entity: Entity,
    pub(crate) commands: Commands<'a, 'a>,
}

impl<'a> EntityCommands<'a>
{
    pub fn id(&self) -> Entity { self.entity }
    pub fn commands(&mut self) -> Commands<'_, '_> { self.commands.reborrow() }
    pub fn reborrow(&mut self) -> EntityCommands<'_> { EntityCommands{ entity: self.entity, commands: self.commands.reborrow() } }

    /// Panics when applied if the entity no longer exists (like Bevy 0.15).
    pub fn insert<B: Bundle>(&mut self, bundle: B) -> &mut Self
    {
        self.commands.queue(InsertCommand{ entity: self.entity, bundle, try_: false });
        self
    }
    /// Silently does nothing when applied if the entity no longer exists.
    pub fn try_insert<B: Bundle>(&mut self, bundle: B) -> &mut Self
    {
        self.commands.queue(InsertCommand{ entity: self.entity, bundle, try_: true });
        self
    }
    pub fn remove<C: Component>(&mut self) -> &mut Self
    {
        self.commands.queue(RemoveCommand::<C>(self.entity, PhantomData));
        self
    }
    pub fn despawn(&mut self)
    {
        self.commands.queue(DespawnCommand(self.entity));
    }
    pub fn queue<F: FnOnce(EntityWorldMut) + Send + 'static>(&mut self, f: F) -> &mut Self
    {
        let entity = self.entity;
        self.commands.queue(move |w: &mut World| { if let Ok(e) = w.get_entity_mut(entity) { f(e) } });
        self
    }
}

//-------------------------------------------------------------------------------------------------------------------
// World
//-------------------------------------------------------------------------------------------------------------------

#[derive(Copy, Clone, Eq, PartialEq, Debug)]
pub enum SlotState { Free, Reserved, Alive }

pub struct Slot
{
    pub generation: u32,
    pub state: SlotState,
    /// the entity's components: `comps[..ncomps]`
    pub comps: [ErasedCell; MAX_COMPS],
    pub ncomps: usize,
}
impl Slot
{
    const UNUSED: Slot = Slot{ generation: 1, state: SlotState::Free, comps: [ErasedCell::EMPTY; MAX_COMPS], ncomps: 0 };
}

pub struct World
{
    /// verification-only: entity slots by index: `m_slots[..m_nslots]` have been allocated at least once
    pub m_slots: [Slot; MAX_ENTITIES],
    pub m_nslots: usize,
    /// verification-only: freed indices, reused LIFO: `m_free[..m_nfree]`
    pub m_free: [u32; MAX_ENTITIES],
    pub m_nfree: usize,
    /// verification-only: resources: `m_resources[..m_nres]`
    pub m_resources: [ErasedCell; MAX_RES],
    pub m_nres: usize,
    /// verification-only: the world's own command queue
    pub m_queue: CommandQueue,
    /// verification-only: removal events `(component type, entity)`, oldest first: `m_removed[..m_nremoved]`
    /// (E4: one entry per removal; `clear_trackers` is not modelled, events stay for the lifetime of the world)
    pub m_removed: [(TypeKey, Entity); MAX_REMOVED],
    pub m_nremoved: usize,
    /// verification-only: number of despawns performed
    pub m_despawns: usize,
}
unsafe impl Send for World {}
unsafe impl Sync for World {}

impl Default for World { fn default() -> Self { World::new() } }

#[derive(Copy, Clone)]
pub struct UnsafeWorldCell<'w>(pub(crate) *mut World, PhantomData<&'w World>);
impl<'w> UnsafeWorldCell<'w>
{
    pub fn m_ptr(self) -> *mut World { self.0 }
    pub unsafe fn world_mut(self) -> &'w mut World { &mut *self.0 }
    pub unsafe fn world(self) -> &'w World { &*self.0 }
}

impl World
{
    pub fn new() -> World
    {
        World{
            m_slots: [Slot::UNUSED; MAX_ENTITIES],
            m_nslots: 0,
            m_free: [0; MAX_ENTITIES],
            m_nfree: 0,
            m_resources: [ErasedCell::EMPTY; MAX_RES],
            m_nres: 0,
            m_queue: CommandQueue::default(),
            m_removed: [(0, Entity::PLACEHOLDER); MAX_REMOVED],
            m_nremoved: 0,
            m_despawns: 0,
        }
    }

    /// verification-only: declare the types the model may drop / the command types it may apply on flush
    pub fn m_drop_table<L: crate::model::cell::DropList>(&mut self) { unsafe { mstate::DROPPER = L::drop_cell; } }
    pub fn m_apply_table<L: ApplyList>(&mut self) { unsafe { mstate::APPLIER = L::apply_cmd; } }
    pub fn m_apply_via_fn_pointer(&mut self) { unsafe { mstate::APPLIER = apply_via_fn_pointer; } }
    pub fn m_set_cmd_mode(&mut self, mode: CmdMode) { unsafe { mstate::CMD_MODE = mode; } }
    /// number of `Commands::queue` calls so far (any queue of this harness, any mode)
    pub fn m_queued(&self) -> usize { unsafe { mstate::QUEUED - mstate::QUEUED_BASE } }
    /// verification-only: commands of type `C` queued through any `Commands` of this world are appended to `buf`
    /// (typed, not applied) until `m_capture_end`
    pub fn m_capture<C: Command>(&mut self, buf: &mut Vec<C>)
    {
        unsafe { mstate::CAPTURE_KEY = type_key::<C>(); mstate::CAPTURE_PTR = buf as *mut Vec<C> as *mut (); }
    }
    pub fn m_capture_end(&mut self) { unsafe { mstate::CAPTURE_KEY = mstate::NO_CAPTURE; mstate::CAPTURE_PTR = mstate::NO_PTR; } }

    pub fn as_unsafe_world_cell(&mut self) -> UnsafeWorldCell<'_> { UnsafeWorldCell(self as *mut World, PhantomData) }

    //---------------- entities

    fn m_alloc(&mut self, state: SlotState) -> Entity
    {
        if self.m_nfree > 0
        {
            self.m_nfree -= 1;
            let index = self.m_free[self.m_nfree];
            let slot = &mut self.m_slots[index as usize];
            slot.state = state;
            Entity::m_new(index, slot.generation)
        }
        else
        {
            if self.m_nslots >= MAX_ENTITIES { panic!("model capacity exceeded: MAX_ENTITIES"); }
            let index = self.m_nslots as u32;
            self.m_nslots += 1;
            self.m_slots[index as usize].state = state;
            Entity::m_new(index, 1)
        }
    }

    /// verification-only: records a removal event (E4)
    pub fn m_push_removed(&mut self, key: TypeKey, entity: Entity)
    {
        if self.m_nremoved >= MAX_REMOVED { panic!("model capacity exceeded: MAX_REMOVED"); }
        self.m_removed[self.m_nremoved] = (key, entity);
        self.m_nremoved += 1;
    }

    pub fn m_reserve_entity(&mut self) -> Entity { self.m_alloc(SlotState::Reserved) }

    fn m_slot(&self, entity: Entity) -> Option<&Slot>
    {
        let i = entity.index() as usize;
        if i >= self.m_nslots { return None; }
        let slot = &self.m_slots[i];
        if slot.generation != entity.generation() { return None; }
        Some(slot)
    }
    fn m_slot_mut(&mut self, entity: Entity) -> Option<&mut Slot>
    {
        let i = entity.index() as usize;
        if i >= self.m_nslots { return None; }
        let slot = &mut self.m_slots[i];
        if slot.generation != entity.generation() { return None; }
        Some(slot)
    }

    /// alive (spawned and not despawned; reserved-but-unflushed ids are not alive yet)
    pub fn m_alive(&self, entity: Entity) -> bool
    {
        match self.m_slot(entity) { Some(s) => s.state == SlotState::Alive, None => false }
    }
    pub fn m_contains_or_reserved(&self, entity: Entity) -> bool
    {
        match self.m_slot(entity) { Some(s) => s.state != SlotState::Free, None => false }
    }
    pub fn m_alive_count(&self) -> usize
    {
        let mut n = 0;
        m_unrolled!(i in [0, 1, 2, 3, 4, 5] { if i < self.m_nslots && self.m_slots[i].state == SlotState::Alive { n += 1; } });
        n
    }

    /// Reserved ids become alive, empty entities.
    pub fn flush_entities(&mut self)
    {
        m_unrolled!(i in [0, 1, 2, 3, 4, 5] { if self.m_slots[i].state == SlotState::Reserved { self.m_slots[i].state = SlotState::Alive; } });
    }

    pub fn flush_commands(&mut self)
    {
        if self.m_queue.is_empty() { return; }
        let mut items = self.m_queue.m_take_all();
        while let Some(cmd) = items.m_pop()
        {
            (unsafe { mstate::APPLIER })(cmd, self);
            self.flush();
        }
    }

    pub fn flush(&mut self)
    {
        self.flush_entities();
        self.flush_commands();
    }

    pub fn spawn_empty(&mut self) -> EntityWorldMut<'_>
    {
        self.flush();
        let entity = self.m_alloc(SlotState::Alive);
        EntityWorldMut{ world: self, entity }
    }

    pub fn spawn<B: Bundle>(&mut self, bundle: B) -> EntityWorldMut<'_>
    {
        self.flush();
        let entity = self.m_alloc(SlotState::Alive);
        bundle.m_insert_into(self, entity);
        EntityWorldMut{ world: self, entity }
    }

    pub fn contains_entity(&self, entity: Entity) -> bool { self.m_alive(entity) }

    pub fn get_entity(&self, entity: Entity) -> Result<EntityRef<'_>, Entity>
    {
        if self.m_alive(entity) { Ok(EntityRef{ world: self, entity }) } else { Err(entity) }
    }
    pub fn get_entity_mut(&mut self, entity: Entity) -> Result<EntityWorldMut<'_>, EntityFetchError>
    {
        if self.m_alive(entity) { Ok(EntityWorldMut{ world: self, entity }) } else { Err(EntityFetchError::NoSuchEntity(entity)) }
    }
    pub fn entity(&self, entity: Entity) -> EntityRef<'_>
    {
        match self.get_entity(entity) { Ok(e) => e, Err(_) => panic!("World::entity: entity does not exist") }
    }
    pub fn entity_mut(&mut self, entity: Entity) -> EntityWorldMut<'_>
    {
        match self.get_entity_mut(entity) { Ok(e) => e, Err(_) => panic!("World::entity_mut: entity does not exist") }
    }

    /// Despawns the entity: every component is removed (removal event recorded, then dropped: E3/E4), the
    /// generation is bumped and the index goes to the free list.  Returns `false` for a dead id.
    pub fn despawn(&mut self, entity: Entity) -> bool
    {
        self.flush();
        let done = self.m_despawn_noflush(entity);
        if done { self.flush(); }
        done
    }

    /// verification-only: `despawn` without the surrounding flushes (for harness-defined commands whose subject is not
    /// the flush order; avoids the despawn -> flush -> apply -> despawn recursion CBMC would unwind to the bound)
    pub fn m_despawn_noflush(&mut self, entity: Entity) -> bool
    {
        if !self.m_alive(entity) { return false; }
        let index = entity.index() as usize;
        {
            let slot = &mut self.m_slots[index];
            slot.state = SlotState::Free;
            slot.generation += 1;
        }
        if self.m_nfree >= MAX_ENTITIES { panic!("model capacity exceeded: free list"); }
        self.m_free[self.m_nfree] = entity.index();
        self.m_nfree += 1;
        self.m_despawns += 1;
        // components are removed last-to-first; each removal is reported (E4) and the value dropped once (E3)
        m_unrolled!(i in [4, 3, 2, 1, 0]
        {
            if i < self.m_slots[index].ncomps
            {
                let cell = core::mem::replace(&mut self.m_slots[index].comps[i], ErasedCell::EMPTY);
                self.m_slots[index].ncomps = i;
                self.m_push_removed(cell.tid, entity);
                (unsafe { mstate::DROPPER })(cell);
            }
        });
        true
    }

    //---------------- components

    /// index of the component cell of type `C` in the entity's slot (search loop with a constant trip count, free
    /// of allocation and writes: whatever is inside a loop is duplicated per unwound iteration)
    fn m_comp_pos<C: Component>(&self, entity: Entity) -> Option<usize>
    {
        let slot = self.m_slot(entity)?;
        let key = type_key::<C>();
        let mut found = None;
        m_unrolled!(i in [0, 1, 2, 3, 4] { if i < slot.ncomps && slot.comps[i].tid == key { found = Some(i); } });
        found
    }

    pub fn m_insert_component<C: Component>(&mut self, entity: Entity, value: C)
    {
        match self.m_slot(entity) { Some(slot) => { if slot.state == SlotState::Free { return; } } None => return }
        let cell = ErasedCell::new(value);
        let index = entity.index() as usize;
        match self.m_comp_pos::<C>(entity)
        {
            Some(i) =>
            {
                // replacement drops the old value (E3); not a removal
                let old = core::mem::replace(&mut self.m_slots[index].comps[i], cell);
                (unsafe { mstate::DROPPER })(old);
            }
            None =>
            {
                let n = self.m_slots[index].ncomps;
                if n >= MAX_COMPS { panic!("model capacity exceeded: MAX_COMPS"); }
                self.m_slots[index].comps[n] = cell;
                self.m_slots[index].ncomps = n + 1;
            }
        }
    }

    pub fn m_remove_component<C: Component>(&mut self, entity: Entity) -> Option<C>
    {
        let i = self.m_comp_pos::<C>(entity)?;
        let index = entity.index() as usize;
        let last = self.m_slots[index].ncomps - 1;
        // swap-remove: the order of an entity's components carries no meaning
        let moved = core::mem::replace(&mut self.m_slots[index].comps[last], ErasedCell::EMPTY);
        let cell = if i == last { moved } else { core::mem::replace(&mut self.m_slots[index].comps[i], moved) };
        self.m_slots[index].ncomps = last;
        self.m_push_removed(type_key::<C>(), entity);
        Some(cell.take::<C>())
    }

    /// removes the component and drops it through the drop table
    pub fn m_remove_and_drop<C: Component>(&mut self, entity: Entity)
    {
        if let Some(v) = self.m_remove_component::<C>(entity) { drop(v); }
    }

    pub fn m_has<C: Component>(&self, entity: Entity) -> bool { self.get::<C>(entity).is_some() }

    pub fn get<C: Component>(&self, entity: Entity) -> Option<&C>
    {
        if !self.m_alive(entity) { return None; }
        let i = self.m_comp_pos::<C>(entity)?;
        self.m_slots[entity.index() as usize].comps[i].get::<C>()
    }

    pub fn get_mut<C: Component>(&mut self, entity: Entity) -> Option<Mut<'_, C>>
    {
        if !self.m_alive(entity) { return None; }
        let i = self.m_comp_pos::<C>(entity)?;
        self.m_slots[entity.index() as usize].comps[i].get_mut::<C>().map(|value| Mut{ value })
    }

    pub(crate) unsafe fn m_comp_ptr<C: Component>(&self, entity: Entity) -> Option<*mut C>
    {
        if !self.m_alive(entity) { return None; }
        let i = self.m_comp_pos::<C>(entity)?;
        Some(self.m_slots[entity.index() as usize].comps[i].raw::<C>())
    }

    //---------------- resources

    fn m_res_pos<R: 'static>(&self) -> Option<usize>
    {
        let key = type_key::<R>();
        let mut found = None;
        m_unrolled!(i in [0, 1, 2, 3, 4, 5, 6, 7, 8, 9, 10, 11, 12, 13] { if i < self.m_nres && self.m_resources[i].tid == key { found = Some(i); } });
        found
    }
    pub fn contains_resource<R: crate::system::Resource>(&self) -> bool { self.m_res_pos::<R>().is_some() }
    fn m_push_resource_cell(&mut self, cell: ErasedCell)
    {
        if self.m_nres >= MAX_RES { panic!("model capacity exceeded: MAX_RES"); }
        self.m_resources[self.m_nres] = cell;
        self.m_nres += 1;
    }
    pub fn insert_resource<R: crate::system::Resource>(&mut self, value: R)
    {
        let cell = ErasedCell::new(value);
        match self.m_res_pos::<R>()
        {
            Some(i) => { let old = core::mem::replace(&mut self.m_resources[i], cell); (unsafe { mstate::DROPPER })(old); }
            None => self.m_push_resource_cell(cell),
        }
    }
    pub fn init_resource<R: crate::system::Resource + FromWorld>(&mut self)
    {
        if self.contains_resource::<R>() { return; }
        let value = R::from_world(self);
        self.insert_resource(value);
    }
    pub fn remove_resource<R: crate::system::Resource>(&mut self) -> Option<R>
    {
        self.m_take_resource_cell::<R>().map(|cell| cell.take::<R>())
    }
    pub fn m_take_resource_cell<R: crate::system::Resource>(&mut self) -> Option<ErasedCell>
    {
        let i = self.m_res_pos::<R>()?;
        let last = self.m_nres - 1;
        let moved = core::mem::replace(&mut self.m_resources[last], ErasedCell::EMPTY);
        let cell = if i == last { moved } else { core::mem::replace(&mut self.m_resources[i], moved) };
        self.m_nres = last;
        Some(cell)
    }
    pub fn get_resource<R: crate::system::Resource>(&self) -> Option<&R>
    {
        let i = self.m_res_pos::<R>()?;
        self.m_resources[i].get::<R>()
    }
    pub fn get_resource_mut<R: crate::system::Resource>(&mut self) -> Option<Mut<'_, R>>
    {
        let i = self.m_res_pos::<R>()?;
        self.m_resources[i].get_mut::<R>().map(|value| Mut{ value })
    }
    pub(crate) unsafe fn m_res_ptr<R: 'static>(&self) -> Option<*mut R>
    {
        let i = self.m_res_pos::<R>()?;
        Some(self.m_resources[i].raw::<R>())
    }
    pub fn resource<R: crate::system::Resource>(&self) -> &R
    {
        match self.get_resource::<R>() { Some(r) => r, None => panic!("World::resource: resource does not exist") }
    }
    pub fn resource_mut<R: crate::system::Resource>(&mut self) -> Mut<'_, R>
    {
        match self.get_resource_mut::<R>() { Some(r) => r, None => panic!("World::resource_mut: resource does not exist") }
    }
    pub fn get_resource_or_insert_with<R: crate::system::Resource>(&mut self, f: impl FnOnce() -> R) -> Mut<'_, R>
    {
        if !self.contains_resource::<R>() { self.insert_resource(f()); }
        self.resource_mut::<R>()
    }
    /// The resource is taken out of the world for the duration of `f` and put back afterwards.
    pub fn resource_scope<R: crate::system::Resource, U>(&mut self, f: impl FnOnce(&mut World, Mut<R>) -> U) -> U
    {
        let mut value = match self.remove_resource::<R>()
        {
            Some(v) => v,
            None => panic!("World::resource_scope: resource does not exist"),
        };
        let out = f(self, Mut{ value: &mut value });
        assert!(!self.contains_resource::<R>(), "resource was re-inserted during resource_scope");
        self.m_push_resource_cell(ErasedCell::new(value));
        out
    }
    pub fn is_resource_added<R: crate::system::Resource>(&self) -> bool { unreachable!("change detection is not modelled") }
    pub fn is_resource_changed<R: crate::system::Resource>(&self) -> bool { unreachable!("change detection is not modelled") }

    //---------------- commands

    /// Commands that write into the world's own queue.
    pub fn commands(&mut self) -> Commands<'_, '_>
    {
        let world = self as *mut World;
        let queue = &mut self.m_queue as *mut CommandQueue;
        Commands{ world, queue, _p: PhantomData }
    }

    pub fn components(&self) -> ! { unreachable!("component registry is not modelled") }

    /// verification-only: removes and returns the oldest queued command of the world's own queue
    pub fn m_pop_command(&mut self) -> Option<ErasedCommand> { self.m_queue.m_pop() }
}

//-------------------------------------------------------------------------------------------------------------------
// Entity views
//-------------------------------------------------------------------------------------------------------------------

pub struct EntityRef<'w>
{
    world: &'w World,
    entity: Entity,
}
impl<'w> EntityRef<'w>
{
    pub fn id(&self) -> Entity { self.entity }
    pub fn get<C: Component>(&self) -> Option<&'w C> { self.world.get::<C>(self.entity) }
    pub fn contains<C: Component>(&self) -> bool { self.world.m_has::<C>(self.entity) }
}

pub struct EntityWorldMut<'w>
{
    pub(crate) world: &'w mut World,
    pub(crate) entity: Entity,
}
impl<'w> EntityWorldMut<'w>
{
    pub fn id(&self) -> Entity { self.entity }
    pub fn get<C: Component>(&self) -> Option<&C> { self.world.get::<C>(self.entity) }
    pub fn get_mut<C: Component>(&mut self) -> Option<Mut<'_, C>> { self.world.get_mut::<C>(self.entity) }
    pub fn into_mut<C: Component>(self) -> Option<Mut<'w, C>> { self.world.get_mut::<C>(self.entity) }
    pub fn into_borrow<C: Component>(self) -> Option<&'w C> { let w: &'w World = self.world; w.get::<C>(self.entity) }
    pub fn contains<C: Component>(&self) -> bool { self.world.m_has::<C>(self.entity) }
    pub fn insert<B: Bundle>(&mut self, bundle: B) -> &mut Self
    {
        bundle.m_insert_into(self.world, self.entity);
        self
    }
    pub fn remove<C: Component>(&mut self) -> &mut Self
    {
        self.world.m_remove_and_drop::<C>(self.entity);
        self
    }
    pub fn take<C: Component>(&mut self) -> Option<C>
    {
        self.world.m_remove_component::<C>(self.entity)
    }
    pub fn despawn(self) { self.world.despawn(self.entity); }
    pub fn world(&self) -> &World { self.world }
    pub fn into_world_mut(self) -> &'w mut World { self.world }
    pub fn world_scope<U>(&mut self, f: impl FnOnce(&mut World) -> U) -> U { f(self.world) }
}
