//! Typed environment model of the Bevy 0.15 API subset that bevy_cobweb's source uses (engine K2).
//!
//! This crate is *named* `bevy` so that /repo's source files, `include!`d unmodified into the K2 harness
//! crate, resolve `bevy::prelude::*`, `bevy::ecs::...` and `bevy::utils::...` against it.  It is an
//! environment stub in the sense of DESIGN.md 2.2: the behaviour the properties rely on (entity liveness
//! and generations, typed component/resource storage, drop-on-removal, FIFO command queues that flush
//! after every command, system state that persists per system instance, RemovedComponents as an event
//! cursor) is modelled with data structures chosen for CBMC (flat `Vec`s, type-erased cells addressed by
//! `TypeId`, no hashing, no archetypes); everything the harnesses never reach (schedules, change ticks, App
//! runner) has `unreachable!()` bodies so that reaching it fails loudly instead of weakening a claim.
//!
//! Fields and helpers whose names start with `m_` are verification-only (model introspection).
#![allow(clippy::all, dead_code, unused_variables, unused_mut, unused_imports)]

extern crate self as bevy;

pub mod model;
pub mod world;
pub mod system;
pub mod query;
pub mod app;
pub mod hierarchy;

pub mod utils
{
    pub use crate::model::maps::{HashMap, HashSet, Entry, AHasher};
    pub use bevy_stub_macros::all_tuples;
    pub use crate::warn_once;
}

#[macro_export]
macro_rules! warn_once { ($($t:tt)*) => {{}}; }

pub mod ecs
{
    pub mod entity { pub use crate::world::Entity; }
    pub mod component
    {
        pub use crate::world::{Component, Tick};
        #[derive(Debug)] pub struct RequiredComponentsError;
    }
    pub mod bundle { pub use crate::world::Bundle; }
    pub mod world
    {
        pub use crate::world::{World, Command, Mut, EntityWorldMut, EntityRef, FromWorld, CommandQueue};
        pub mod unsafe_world_cell { pub use crate::world::UnsafeWorldCell; }
        pub mod error { #[derive(Debug)] pub enum EntityFetchError { NoSuchEntity(crate::world::Entity), AliasedMutability(crate::world::Entity) } }
        pub mod reflect { #[derive(Debug)] pub struct GetComponentReflectError; }
    }
    pub mod system
    {
        pub use crate::system::*;
        pub use crate::query::Query;
        pub use crate::world::{Commands, EntityCommands};
        pub use bevy_stub_macros::{Resource, SystemParam};
    }
    pub mod query
    {
        pub use crate::query::{QueryData, QueryFilter, QueryEntityError, QuerySingleError, With, Without};
    }
    pub mod schedule
    {
        pub use crate::app::{SystemSet, IntoSystemConfigs, ScheduleLabel};
        pub use bevy_stub_macros::SystemSet;
    }
    pub mod change_detection { pub use crate::world::{DetectChanges, DetectChangesMut}; }
    pub mod removal_detection { pub use crate::system::RemovedComponents; }
    pub mod prelude { pub use crate::prelude::*; }
}

pub mod prelude
{
    pub use crate::world::{World, Entity, Component, Bundle, Mut, EntityWorldMut, EntityRef, FromWorld, Commands, EntityCommands,
        DetectChanges, DetectChangesMut, Command};
    pub use crate::system::{System, IntoSystem, SystemInput, In, Res, ResMut, Local, Resource, RemovedComponents, BoxedSystem,
        SystemParamFunction};
    pub use crate::query::{Query, With, Without};
    pub use crate::app::{App, Plugin, Last, Update, Startup, First, PreUpdate, PostUpdate, IntoSystemConfigs, SystemSet, IntoSystemSetConfigs};
    pub use crate::hierarchy::{DespawnRecursiveExt, Children, Parent, BuildChildren};
    pub use bevy_stub_macros::{Component, Resource, SystemSet, Deref, DerefMut};
    pub use crate::warn_once;
}
