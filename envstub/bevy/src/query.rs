//! `Query` model: typed lookups over the entity table (no archetypes, no filters beyond With/Without).
use crate::world::{Component, Entity, Mut, UnsafeWorldCell, World, SlotState};
use crate::system::SystemParam;
use core::marker::PhantomData;

#[derive(Debug, Clone, Copy, PartialEq, Eq)]
pub enum QueryEntityError<'w>
{
    QueryDoesNotMatch(Entity, PhantomData<&'w ()>),
    NoSuchEntity(Entity),
    AliasedMutability(Entity),
}
#[derive(Debug, Clone, Copy, PartialEq, Eq)]
pub enum QuerySingleError
{
    NoEntities(&'static str),
    MultipleEntities(&'static str),
}

pub unsafe trait QueryData
{
    type Item<'a>;
    type ReadOnly: QueryData;
    /// `None` when the (alive) entity does not have the data.
    unsafe fn m_fetch<'a>(world: *mut World, entity: Entity) -> Option<Self::Item<'a>>;
}

unsafe impl QueryData for Entity
{
    type Item<'a> = Entity;
    type ReadOnly = Entity;
    unsafe fn m_fetch<'a>(_: *mut World, entity: Entity) -> Option<Self::Item<'a>> { Some(entity) }
}
unsafe impl<T: Component> QueryData for &T
{
    type Item<'a> = &'a T;
    type ReadOnly = Self;
    unsafe fn m_fetch<'a>(world: *mut World, entity: Entity) -> Option<Self::Item<'a>>
    {
        (*world).m_comp_ptr::<T>(entity).map(|p| &*p)
    }
}
unsafe impl<'x, T: Component> QueryData for &'x mut T
{
    type Item<'a> = Mut<'a, T>;
    type ReadOnly = &'x T;
    unsafe fn m_fetch<'a>(world: *mut World, entity: Entity) -> Option<Self::Item<'a>>
    {
        (*world).m_comp_ptr::<T>(entity).map(|p| Mut{ value: &mut *p })
    }
}
macro_rules! query_tuple {
    ($($n:ident),*) => {
        unsafe impl<$($n: QueryData),*> QueryData for ($($n,)*)
        {
            type Item<'a> = ($($n::Item<'a>,)*);
            type ReadOnly = ($($n::ReadOnly,)*);
            unsafe fn m_fetch<'a>(world: *mut World, entity: Entity) -> Option<Self::Item<'a>>
            {
                Some(($( match $n::m_fetch(world, entity) { Some(x) => x, None => return None }, )*))
            }
        }
    }
}
query_tuple!(A);
query_tuple!(A, B);
query_tuple!(A, B, C);

pub unsafe trait QueryFilter
{
    unsafe fn m_matches(world: *mut World, entity: Entity) -> bool;
}
unsafe impl QueryFilter for () { unsafe fn m_matches(_: *mut World, _: Entity) -> bool { true } }
pub struct With<T>(PhantomData<T>);
pub struct Without<T>(PhantomData<T>);
unsafe impl<T: Component> QueryFilter for With<T>
{
    unsafe fn m_matches(world: *mut World, entity: Entity) -> bool { (*world).m_has::<T>(entity) }
}
unsafe impl<T: Component> QueryFilter for Without<T>
{
    unsafe fn m_matches(world: *mut World, entity: Entity) -> bool { !(*world).m_has::<T>(entity) }
}

pub struct Query<'w, 's, D: QueryData, F: QueryFilter = ()>
{
    world: *mut World,
    _p: PhantomData<(&'w (), &'s (), D, F)>,
}

impl<'w, 's, D: QueryData, F: QueryFilter> Query<'w, 's, D, F>
{
    /// verification-only: a query over `world`
    pub fn m_new(world: *mut World) -> Self { Self{ world, _p: PhantomData } }

    unsafe fn m_get<'a, Q: QueryData>(&self, entity: Entity) -> Result<Q::Item<'a>, QueryEntityError<'w>>
    {
        if !(*self.world).m_alive(entity) { return Err(QueryEntityError::NoSuchEntity(entity)); }
        if !F::m_matches(self.world, entity) { return Err(QueryEntityError::QueryDoesNotMatch(entity, PhantomData)); }
        match Q::m_fetch(self.world, entity)
        {
            Some(item) => Ok(item),
            None => Err(QueryEntityError::QueryDoesNotMatch(entity, PhantomData)),
        }
    }

    pub fn get(&self, entity: Entity) -> Result<<D::ReadOnly as QueryData>::Item<'_>, QueryEntityError<'w>>
    {
        unsafe { self.m_get::<D::ReadOnly>(entity) }
    }
    pub fn get_mut(&mut self, entity: Entity) -> Result<D::Item<'_>, QueryEntityError<'w>>
    {
        unsafe { self.m_get::<D>(entity) }
    }
    pub fn contains(&self, entity: Entity) -> bool { self.get(entity).is_ok() }

    unsafe fn m_single<'a, Q: QueryData>(&self) -> Result<Q::Item<'a>, QuerySingleError>
    {
        let world = &*self.world;
        let mut found: Option<Entity> = None;
        let mut many = false;
        crate::m_unrolled!(i in [0, 1, 2, 3, 4, 5]
        {
            let slot = &world.m_slots[i];
            if i < world.m_nslots && slot.state == SlotState::Alive
            {
                let e = Entity::m_new(i as u32, slot.generation);
                if F::m_matches(self.world, e) && Q::m_fetch(self.world, e).is_some()
                {
                    if found.is_some() { many = true; }
                    found = Some(e);
                }
            }
        });
        if many { return Err(QuerySingleError::MultipleEntities("query")); }
        match found
        {
            Some(e) => Ok(Q::m_fetch(self.world, e).unwrap()),
            None => Err(QuerySingleError::NoEntities("query")),
        }
    }
    pub fn get_single(&self) -> Result<<D::ReadOnly as QueryData>::Item<'_>, QuerySingleError> { unsafe { self.m_single::<D::ReadOnly>() } }
    pub fn get_single_mut(&mut self) -> Result<D::Item<'_>, QuerySingleError> { unsafe { self.m_single::<D>() } }
    pub fn single(&self) -> <D::ReadOnly as QueryData>::Item<'_>
    {
        match self.get_single() { Ok(x) => x, Err(_) => panic!("Query::single: not exactly one match") }
    }
    pub fn single_mut(&mut self) -> D::Item<'_>
    {
        match self.get_single_mut() { Ok(x) => x, Err(_) => panic!("Query::single_mut: not exactly one match") }
    }
    pub fn is_empty(&self) -> bool { matches!(self.get_single(), Err(QuerySingleError::NoEntities(_))) }
}

unsafe impl<'a, 'b, D: QueryData + 'static, F: QueryFilter + 'static> SystemParam for Query<'a, 'b, D, F>
{
    type State = ();
    type Item<'w, 's> = Query<'w, 's, D, F>;
    fn init_state(_: &mut World) {}
    unsafe fn get_param<'w, 's>(_: &'s mut (), world: UnsafeWorldCell<'w>) -> Query<'w, 's, D, F>
    {
        Query{ world: world.m_ptr(), _p: PhantomData }
    }
}
