//! Systems: `SystemInput`, `System`, function systems (ordinary and exclusive), system params.
//!
//! The shape mirrors bevy_ecs 0.15 (`IntoSystem` markers, `SystemParamFunction`, `SystemParam::{State,Item}`) so
//! that /repo's generic code type-checks unmodified.  Semantics kept: a system's state (`Local`s, its command
//! queue, `RemovedComponents` cursor) is created once by `initialize` and persists inside the system value;
//! `run` = `run_unsafe` + `apply_deferred`; an exclusive system's `run` flushes the world after the body (E6).
use crate::world::{Command, CommandQueue, Commands, Component, Entity, FromWorld, Mut, Tick, UnsafeWorldCell, World, DetectChanges};
use core::marker::PhantomData;
use core::ops::{Deref, DerefMut};
use core::any::TypeId;
use bevy_stub_macros::all_tuples;

pub trait Resource: Send + Sync + 'static {}

//-------------------------------------------------------------------------------------------------------------------
// input
//-------------------------------------------------------------------------------------------------------------------

pub trait SystemInput: Sized
{
    type Param<'i>: SystemInput;
    type Inner<'i>;
    fn wrap(this: Self::Inner<'_>) -> Self::Param<'_>;
}
pub type SystemIn<'a, S> = <<S as System>::In as SystemInput>::Inner<'a>;

impl SystemInput for ()
{
    type Param<'i> = ();
    type Inner<'i> = ();
    fn wrap(_: Self::Inner<'_>) -> Self::Param<'_> {}
}

#[derive(Debug)]
pub struct In<T>(pub T);
impl<T: 'static> SystemInput for In<T>
{
    type Param<'i> = In<T>;
    type Inner<'i> = T;
    fn wrap(this: Self::Inner<'_>) -> Self::Param<'_> { In(this) }
}
impl<T> Deref for In<T> { type Target = T; fn deref(&self) -> &T { &self.0 } }
impl<T> DerefMut for In<T> { fn deref_mut(&mut self) -> &mut T { &mut self.0 } }

//-------------------------------------------------------------------------------------------------------------------
// System
//-------------------------------------------------------------------------------------------------------------------

pub trait System: Send + Sync + 'static
{
    type In: SystemInput;
    type Out;

    fn is_exclusive(&self) -> bool;
    /// bevy 0.15: true iff a parameter buffers deferred work (`Commands`, `Deferred`); always false for exclusive systems
    fn has_deferred(&self) -> bool;
    fn initialize(&mut self, world: &mut World);
    unsafe fn run_unsafe(&mut self, input: SystemIn<'_, Self>, world: UnsafeWorldCell) -> Self::Out;
    fn apply_deferred(&mut self, world: &mut World);
    fn update_archetype_component_access(&mut self, _world: UnsafeWorldCell) {}

    fn run(&mut self, input: SystemIn<'_, Self>, world: &mut World) -> Self::Out
    {
        let cell = world.as_unsafe_world_cell();
        self.update_archetype_component_access(cell);
        let ret = unsafe { self.run_unsafe(input, cell) };
        self.apply_deferred(world);
        ret
    }
}

pub type BoxedSystem<In = (), Out = ()> = Box<dyn System<In = In, Out = Out>>;

pub trait IntoSystem<In: SystemInput, Out, Marker>: Sized
{
    type System: System<In = In, Out = Out>;
    fn into_system(this: Self) -> Self::System;
}

impl<T: System> IntoSystem<T::In, T::Out, ()> for T
{
    type System = T;
    fn into_system(this: Self) -> Self { this }
}

//-------------------------------------------------------------------------------------------------------------------
// SystemParam
//-------------------------------------------------------------------------------------------------------------------

pub unsafe trait SystemParam: Sized
{
    type State: Send + Sync + 'static;
    type Item<'w, 's>: SystemParam<State = Self::State>;
    /// model of `SystemMeta::has_deferred`: does this parameter buffer deferred work?
    const M_DEFERRED: bool = false;

    fn init_state(world: &mut World) -> Self::State;
    unsafe fn get_param<'w, 's>(state: &'s mut Self::State, world: UnsafeWorldCell<'w>) -> Self::Item<'w, 's>;
    fn apply(_state: &mut Self::State, _world: &mut World) {}
}
pub type SystemParamItem<'w, 's, P> = <P as SystemParam>::Item<'w, 's>;

macro_rules! impl_param_tuple {
    ($($p:ident),*) => {
        #[allow(non_snake_case, unused_variables, clippy::unused_unit)]
        unsafe impl<$($p: SystemParam),*> SystemParam for ($($p,)*)
        {
            type State = ($($p::State,)*);
            type Item<'w, 's> = ($($p::Item<'w, 's>,)*);
            const M_DEFERRED: bool = false $(|| $p::M_DEFERRED)*;
            fn init_state(world: &mut World) -> Self::State { ($($p::init_state(world),)*) }
            unsafe fn get_param<'w, 's>(state: &'s mut Self::State, world: UnsafeWorldCell<'w>) -> Self::Item<'w, 's>
            {
                let ($($p,)*) = state;
                ($($p::get_param($p, world),)*)
            }
            fn apply(state: &mut Self::State, world: &mut World)
            {
                let ($($p,)*) = state;
                $( $p::apply($p, world); )*
            }
        }
    }
}
all_tuples!(impl_param_tuple, 0, 8, P);

//---------------- Res / ResMut

pub struct Res<'w, R: Resource>
{
    value: &'w R,
}
impl<'w, R: Resource> Res<'w, R>
{
    /// verification-only: a `Res` over a value that lives outside any world
    pub fn m_new(value: &'w R) -> Self { Self{ value } }
    pub fn into_inner(self) -> &'w R { self.value }
}
impl<'w, R: Resource> Deref for Res<'w, R> { type Target = R; fn deref(&self) -> &R { self.value } }
impl<'w, R: Resource> DetectChanges for Res<'w, R>
{
    fn is_added(&self) -> bool { unreachable!("change detection is not modelled") }
    fn is_changed(&self) -> bool { unreachable!("change detection is not modelled") }
    fn last_changed(&self) -> Tick { unreachable!("change detection is not modelled") }
}
unsafe impl<'a, R: Resource> SystemParam for Res<'a, R>
{
    type State = ();
    type Item<'w, 's> = Res<'w, R>;
    fn init_state(_: &mut World) {}
    unsafe fn get_param<'w, 's>(_: &'s mut (), world: UnsafeWorldCell<'w>) -> Res<'w, R>
    {
        match (*world.m_ptr()).m_res_ptr::<R>()
        {
            Some(p) => Res{ value: &*p },
            None => panic!("Res: resource does not exist"),
        }
    }
}
unsafe impl<'a, R: Resource> SystemParam for Option<Res<'a, R>>
{
    type State = ();
    type Item<'w, 's> = Option<Res<'w, R>>;
    fn init_state(_: &mut World) {}
    unsafe fn get_param<'w, 's>(_: &'s mut (), world: UnsafeWorldCell<'w>) -> Option<Res<'w, R>>
    {
        (*world.m_ptr()).m_res_ptr::<R>().map(|p| Res{ value: &*p })
    }
}

pub struct ResMut<'w, R: Resource>
{
    value: &'w mut R,
}
impl<'w, R: Resource> ResMut<'w, R>
{
    /// verification-only: a `ResMut` over a value that lives outside any world
    pub fn m_new(value: &'w mut R) -> Self { Self{ value } }
    pub fn into_inner(self) -> &'w mut R { self.value }
    pub fn reborrow(&mut self) -> Mut<'_, R> { Mut{ value: self.value } }
}
impl<'w, R: Resource> Deref for ResMut<'w, R> { type Target = R; fn deref(&self) -> &R { self.value } }
impl<'w, R: Resource> DerefMut for ResMut<'w, R> { fn deref_mut(&mut self) -> &mut R { self.value } }
impl<'w, R: Resource> DetectChanges for ResMut<'w, R>
{
    fn is_added(&self) -> bool { unreachable!("change detection is not modelled") }
    fn is_changed(&self) -> bool { unreachable!("change detection is not modelled") }
    fn last_changed(&self) -> Tick { unreachable!("change detection is not modelled") }
}
unsafe impl<'a, R: Resource> SystemParam for ResMut<'a, R>
{
    type State = ();
    type Item<'w, 's> = ResMut<'w, R>;
    fn init_state(_: &mut World) {}
    unsafe fn get_param<'w, 's>(_: &'s mut (), world: UnsafeWorldCell<'w>) -> ResMut<'w, R>
    {
        match (*world.m_ptr()).m_res_ptr::<R>()
        {
            Some(p) => ResMut{ value: &mut *p },
            None => panic!("ResMut: resource does not exist"),
        }
    }
}
unsafe impl<'a, R: Resource> SystemParam for Option<ResMut<'a, R>>
{
    type State = ();
    type Item<'w, 's> = Option<ResMut<'w, R>>;
    fn init_state(_: &mut World) {}
    unsafe fn get_param<'w, 's>(_: &'s mut (), world: UnsafeWorldCell<'w>) -> Option<ResMut<'w, R>>
    {
        (*world.m_ptr()).m_res_ptr::<R>().map(|p| ResMut{ value: &mut *p })
    }
}

//---------------- Local

pub struct Local<'s, T: FromWorld + Send + 'static>(pub(crate) &'s mut T);
impl<'s, T: FromWorld + Send + 'static> Local<'s, T>
{
    /// verification-only: a `Local` over a value owned by the harness
    pub fn m_new(value: &'s mut T) -> Self { Local(value) }
}
impl<'s, T: FromWorld + Send + 'static> Deref for Local<'s, T> { type Target = T; fn deref(&self) -> &T { self.0 } }
impl<'s, T: FromWorld + Send + 'static> DerefMut for Local<'s, T> { fn deref_mut(&mut self) -> &mut T { self.0 } }
pub struct SyncCell<T>(pub T);
unsafe impl<T> Sync for SyncCell<T> {}
unsafe impl<'a, T: FromWorld + Send + 'static> SystemParam for Local<'a, T>
{
    type State = SyncCell<T>;
    type Item<'w, 's> = Local<'s, T>;
    fn init_state(world: &mut World) -> SyncCell<T> { SyncCell(T::from_world(world)) }
    unsafe fn get_param<'w, 's>(state: &'s mut SyncCell<T>, _: UnsafeWorldCell<'w>) -> Local<'s, T> { Local(&mut state.0) }
}

//---------------- Commands

pub struct CommandsState(pub CommandQueue);
unsafe impl Send for CommandsState {}
unsafe impl Sync for CommandsState {}
unsafe impl<'a, 'b> SystemParam for Commands<'a, 'b>
{
    type State = CommandsState;
    type Item<'w, 's> = Commands<'w, 's>;
    const M_DEFERRED: bool = true;
    fn init_state(_: &mut World) -> CommandsState { CommandsState(CommandQueue::default()) }
    unsafe fn get_param<'w, 's>(state: &'s mut CommandsState, world: UnsafeWorldCell<'w>) -> Commands<'w, 's>
    {
        Commands::m_new(world.m_ptr(), &mut state.0 as *mut CommandQueue)
    }
    fn apply(state: &mut CommandsState, world: &mut World) { state.0.apply(world); }
}

//---------------- RemovedComponents

/// E4: an event cursor over the world's removal log; each removal of `T` is reported once per reader.
pub struct RemovedComponents<'w, 's, T: Component>
{
    world: *mut World,
    cursor: &'s mut usize,
    _p: PhantomData<(&'w (), T)>,
}
impl<'w, 's, T: Component> RemovedComponents<'w, 's, T>
{
    pub fn read(&mut self) -> impl Iterator<Item = Entity> + '_
    {
        let world = unsafe { &*self.world };
        let start = *self.cursor;
        *self.cursor = world.m_nremoved;
        world.m_removed[start..world.m_nremoved].iter().filter(|(tid, _)| *tid == crate::model::cell::type_key::<T>()).map(|(_, e)| *e)
    }
    pub fn len(&self) -> usize
    {
        let world = unsafe { &*self.world };
        world.m_removed[*self.cursor..world.m_nremoved].iter().filter(|(tid, _)| *tid == crate::model::cell::type_key::<T>()).count()
    }
    pub fn is_empty(&self) -> bool { self.len() == 0 }
}
unsafe impl<'a, 'b, T: Component> SystemParam for RemovedComponents<'a, 'b, T>
{
    type State = usize;
    type Item<'w, 's> = RemovedComponents<'w, 's, T>;
    fn init_state(_: &mut World) -> usize { 0 }
    unsafe fn get_param<'w, 's>(state: &'s mut usize, world: UnsafeWorldCell<'w>) -> RemovedComponents<'w, 's, T>
    {
        RemovedComponents{ world: world.m_ptr(), cursor: state, _p: PhantomData }
    }
}

//-------------------------------------------------------------------------------------------------------------------
// function systems
//-------------------------------------------------------------------------------------------------------------------

pub struct HasSystemInput;
pub struct IsFunctionSystem;
pub struct IsExclusiveFunctionSystem;
pub struct HasExclusiveSystemInput;

pub trait SystemParamFunction<Marker>: Send + Sync + 'static
{
    type In: SystemInput;
    type Out;
    type Param: SystemParam;
    fn run(&mut self, input: <Self::In as SystemInput>::Inner<'_>, param_value: SystemParamItem<Self::Param>) -> Self::Out;
}

pub struct FunctionSystem<Marker, F: SystemParamFunction<Marker>>
{
    func: F,
    /// verification-only: the system's persistent state (`None` until `initialize`)
    pub m_state: Option<<F::Param as SystemParam>::State>,
    /// verification-only: how often `initialize` created the state
    pub m_inits: usize,
    _p: PhantomData<fn() -> Marker>,
}

impl<Marker: 'static, F: SystemParamFunction<Marker>> IntoSystem<F::In, F::Out, (IsFunctionSystem, Marker)> for F
{
    type System = FunctionSystem<Marker, F>;
    fn into_system(func: Self) -> Self::System { FunctionSystem{ func, m_state: None, m_inits: 0, _p: PhantomData } }
}

impl<Marker: 'static, F: SystemParamFunction<Marker>> System for FunctionSystem<Marker, F>
{
    type In = F::In;
    type Out = F::Out;
    fn is_exclusive(&self) -> bool { false }
    fn has_deferred(&self) -> bool { self.m_state.is_some() && <F::Param as SystemParam>::M_DEFERRED }
    fn initialize(&mut self, world: &mut World)
    {
        if self.m_state.is_none()
        {
            self.m_state = Some(<F::Param as SystemParam>::init_state(world));
            self.m_inits += 1;
        }
    }
    unsafe fn run_unsafe(&mut self, input: SystemIn<'_, Self>, world: UnsafeWorldCell) -> Self::Out
    {
        let state = match self.m_state.as_mut() { Some(s) => s, None => panic!("system run before initialize") };
        let params = <F::Param as SystemParam>::get_param(state, world);
        self.func.run(input, params)
    }
    fn apply_deferred(&mut self, world: &mut World)
    {
        let state = match self.m_state.as_mut() { Some(s) => s, None => panic!("system apply_deferred before initialize") };
        <F::Param as SystemParam>::apply(state, world);
    }
}

macro_rules! impl_system_function {
    ($($param: ident),*) => {
        #[allow(non_snake_case)]
        impl<Out, Func, $($param: SystemParam),*> SystemParamFunction<fn($($param,)*) -> Out> for Func
        where
            Func: Send + Sync + 'static,
            for <'a> &'a mut Func:
                FnMut($($param),*) -> Out +
                FnMut($(SystemParamItem<$param>),*) -> Out,
            Out: 'static
        {
            type In = ();
            type Out = Out;
            type Param = ($($param,)*);
            #[inline]
            fn run(&mut self, _input: (), param_value: SystemParamItem< ($($param,)*)>) -> Out {
                #[allow(clippy::too_many_arguments)]
                fn call_inner<Out, $($param,)*>(
                    mut f: impl FnMut($($param,)*)->Out,
                    $($param: $param,)*
                )->Out{
                    f($($param,)*)
                }
                let ($($param,)*) = param_value;
                call_inner(self, $($param),*)
            }
        }

        #[allow(non_snake_case)]
        impl<In, Out, Func, $($param: SystemParam),*> SystemParamFunction<(HasSystemInput, fn(In, $($param,)*) -> Out)> for Func
        where
            Func: Send + Sync + 'static,
            for <'a> &'a mut Func:
                FnMut(In, $($param),*) -> Out +
                FnMut(In::Param<'_>, $(SystemParamItem<$param>),*) -> Out,
            In: SystemInput + 'static,
            Out: 'static
        {
            type In = In;
            type Out = Out;
            type Param = ($($param,)*);
            #[inline]
            fn run(&mut self, input: In::Inner<'_>, param_value: SystemParamItem< ($($param,)*)>) -> Out {
                #[allow(clippy::too_many_arguments)]
                fn call_inner<In: SystemInput, Out, $($param,)*>(
                    _: PhantomData<In>,
                    mut f: impl FnMut(In::Param<'_>, $($param,)*)->Out,
                    input: In::Inner<'_>,
                    $($param: $param,)*
                )->Out{
                    f(In::wrap(input), $($param,)*)
                }
                let ($($param,)*) = param_value;
                call_inner(PhantomData::<In>, self, input, $($param),*)
            }
        }
    };
}
all_tuples!(impl_system_function, 0, 8, F);

//---------------- exclusive function systems: fn(&mut World) and fn(In<T>, &mut World)

pub trait ExclusiveSystemParamFunction<Marker>: Send + Sync + 'static
{
    type In: SystemInput;
    type Out;
    fn run(&mut self, world: &mut World, input: <Self::In as SystemInput>::Inner<'_>) -> Self::Out;
}

impl<Out: 'static, Func> ExclusiveSystemParamFunction<fn() -> Out> for Func
where
    Func: Send + Sync + 'static,
    for<'a> &'a mut Func: FnMut(&mut World) -> Out,
{
    type In = ();
    type Out = Out;
    fn run(&mut self, world: &mut World, _: ()) -> Out
    {
        fn call_inner<Out>(mut f: impl FnMut(&mut World) -> Out, world: &mut World) -> Out { f(world) }
        call_inner(self, world)
    }
}

impl<In, Out: 'static, Func> ExclusiveSystemParamFunction<(HasExclusiveSystemInput, fn(In) -> Out)> for Func
where
    Func: Send + Sync + 'static,
    for<'a> &'a mut Func: FnMut(In, &mut World) -> Out + FnMut(In::Param<'_>, &mut World) -> Out,
    In: SystemInput + 'static,
{
    type In = In;
    type Out = Out;
    fn run(&mut self, world: &mut World, input: In::Inner<'_>) -> Out
    {
        fn call_inner<In: SystemInput, Out>(_: PhantomData<In>, mut f: impl FnMut(In::Param<'_>, &mut World) -> Out,
            input: In::Inner<'_>, world: &mut World) -> Out
        { f(In::wrap(input), world) }
        call_inner(PhantomData::<In>, self, input, world)
    }
}

pub struct ExclusiveFunctionSystem<Marker, F: ExclusiveSystemParamFunction<Marker>>
{
    func: F,
    pub m_inits: usize,
    _p: PhantomData<fn() -> Marker>,
}

impl<Marker: 'static, F: ExclusiveSystemParamFunction<Marker>> IntoSystem<F::In, F::Out, (IsExclusiveFunctionSystem, Marker)> for F
{
    type System = ExclusiveFunctionSystem<Marker, F>;
    fn into_system(func: Self) -> Self::System { ExclusiveFunctionSystem{ func, m_inits: 0, _p: PhantomData } }
}

impl<Marker: 'static, F: ExclusiveSystemParamFunction<Marker>> System for ExclusiveFunctionSystem<Marker, F>
{
    type In = F::In;
    type Out = F::Out;
    fn is_exclusive(&self) -> bool { true }
    fn has_deferred(&self) -> bool { false }
    fn initialize(&mut self, _: &mut World) { self.m_inits += 1; }
    unsafe fn run_unsafe(&mut self, _: SystemIn<'_, Self>, _: UnsafeWorldCell) -> Self::Out
    {
        panic!("Cannot run exclusive systems with a shared World reference");
    }
    fn apply_deferred(&mut self, _: &mut World) {}
    fn run(&mut self, input: SystemIn<'_, Self>, world: &mut World) -> Self::Out
    {
        let out = self.func.run(world, input);
        world.flush();
        out
    }
}
