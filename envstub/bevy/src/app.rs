//! `App`, schedules, plugins: type-check only.  The scheduler is not modelled (DESIGN.md section 3).
use crate::system::{IntoSystem, Resource};
use crate::world::{FromWorld, World};
use core::marker::PhantomData;

pub trait SystemSet: Send + Sync + 'static {}
pub trait ScheduleLabel: Send + Sync + 'static {}
macro_rules! label { ($($n:ident),*) => { $( #[derive(Debug, Default, Copy, Clone, Eq, PartialEq, Hash)] pub struct $n; impl ScheduleLabel for $n {} )* } }
label!(First, PreUpdate, Update, PostUpdate, Last, Startup);

pub struct SystemConfigs(());
pub trait IntoSystemConfigs<Marker>: Sized
{
    fn m_into_configs(self) -> SystemConfigs;
    fn after<M>(self, _set: impl IntoSystemSet<M>) -> SystemConfigs { self.m_into_configs() }
    fn before<M>(self, _set: impl IntoSystemSet<M>) -> SystemConfigs { self.m_into_configs() }
    fn in_set(self, _set: impl SystemSet) -> SystemConfigs { self.m_into_configs() }
    fn chain(self) -> SystemConfigs { self.m_into_configs() }
}
impl IntoSystemConfigs<()> for SystemConfigs { fn m_into_configs(self) -> SystemConfigs { self } }
impl<Marker, F: IntoSystem<(), (), Marker>> IntoSystemConfigs<(PhantomData<Marker>,)> for F
{
    fn m_into_configs(self) -> SystemConfigs { SystemConfigs(()) }
}
pub trait IntoSystemSet<Marker>: Sized {}
impl<S: SystemSet> IntoSystemSet<()> for S {}
pub struct SystemFnSet;
impl<Marker, F: IntoSystem<(), (), Marker>> IntoSystemSet<(SystemFnSet, Marker)> for F {}
pub trait IntoSystemSetConfigs: Sized {}

pub trait Plugin: Send + Sync + 'static
{
    fn build(&self, app: &mut App);
}

pub struct App
{
    pub m_world: World,
}
impl Default for App { fn default() -> Self { App::new() } }
impl App
{
    pub fn new() -> App { App{ m_world: World::new() } }
    pub fn world(&self) -> &World { &self.m_world }
    pub fn world_mut(&mut self) -> &mut World { &mut self.m_world }
    pub fn init_resource<R: Resource + FromWorld>(&mut self) -> &mut Self { self.m_world.init_resource::<R>(); self }
    pub fn insert_resource<R: Resource>(&mut self, r: R) -> &mut Self { self.m_world.insert_resource(r); self }
    /// The scheduler is not modelled: systems added to a schedule are never run by the model.
    pub fn add_systems<M>(&mut self, _schedule: impl ScheduleLabel, _systems: impl IntoSystemConfigs<M>) -> &mut Self { self }
    pub fn add_plugins<P: Plugin>(&mut self, plugin: P) -> &mut Self { plugin.build(self); self }
    pub fn update(&mut self) { unreachable!("App::update: the scheduler is not modelled") }
}
