//! Environment stub for `smallvec` (third-party dependency of bevy_cobweb, not its subject).
//!
//! The real `SmallVec` keeps its items in a `union { inline: [T; N], heap: (ptr, len) }` selected by `capacity`.
//! CBMC encodes every access to such a union byte-wise over the whole inline buffer, which made even a trivial
//! harness over `EntityReactors` (a `SmallVec<[(EntityReactionType, ReactorHandle); 6]>`) run out of memory
//! (measured: > 14 GB).  None of the properties is about the inline/spill optimisation, so the stub keeps the
//! contract the real code relies on - an ordered growable sequence; `drain_filter(p)` removes exactly the items
//! for which `p` is true and keeps the order of the rest - on top of a plain `Vec` (reserved to the inline size
//! on first use so that growth does not happen inside small harnesses).
use core::ops::{Deref, DerefMut};

/// largest sequence the stub's `drain_filter` handles (loud failure beyond)
pub const M_MAX: usize = 8;

pub unsafe trait Array
{
    type Item;
    fn size() -> usize;
}
unsafe impl<T, const N: usize> Array for [T; N]
{
    type Item = T;
    fn size() -> usize { N }
}

pub struct SmallVec<A: Array>
{
    /// verification-only: the items
    pub m_items: Vec<A::Item>,
}

impl<A: Array> Default for SmallVec<A> { fn default() -> Self { SmallVec{ m_items: Vec::new() } } }

impl<A: Array> SmallVec<A>
{
    pub fn new() -> Self { Self::default() }
    pub fn with_capacity(n: usize) -> Self
    {
        let n = if n < A::size() { A::size() } else { n };
        SmallVec{ m_items: Vec::with_capacity(n) }
    }
    pub fn inline_size(&self) -> usize { A::size() }
    pub fn len(&self) -> usize { self.m_items.len() }
    pub fn is_empty(&self) -> bool { self.m_items.is_empty() }
    pub fn spilled(&self) -> bool { self.m_items.len() > A::size() }
    pub fn push(&mut self, value: A::Item)
    {
        if self.m_items.capacity() == 0 { self.m_items.reserve_exact(A::size()); }
        self.m_items.push(value);
    }
    pub fn pop(&mut self) -> Option<A::Item> { self.m_items.pop() }
    pub fn remove(&mut self, index: usize) -> A::Item { self.m_items.remove(index) }
    pub fn clear(&mut self) { self.m_items.clear(); }
    pub fn as_slice(&self) -> &[A::Item] { self.m_items.as_slice() }
    pub fn as_mut_slice(&mut self) -> &mut [A::Item] { self.m_items.as_mut_slice() }
    pub fn iter(&self) -> core::slice::Iter<'_, A::Item> { self.m_items.iter() }
    pub fn iter_mut(&mut self) -> core::slice::IterMut<'_, A::Item> { self.m_items.iter_mut() }
    pub fn retain<F: FnMut(&mut A::Item) -> bool>(&mut self, mut f: F) { self.m_items.retain_mut(|x| f(x)); }

    /// Removes exactly the items for which `filter` returns true (in order) and yields them; the remaining items
    /// keep their relative order.  (The real adaptor removes lazily and finishes on drop; every use in the real
    /// code drops the adaptor at once, for which eager removal is equivalent.)
    pub fn drain_filter<F: FnMut(&mut A::Item) -> bool>(&mut self, mut filter: F) -> std::vec::IntoIter<A::Item>
    {
        // survivors and removed items are moved one by one into fresh vectors (no `Vec::remove`: its memmove with a
        // symbolic length is what CBMC pays most for)
        // constant capacities: an allocation whose size depends on a symbolic length is a symbolic-size object for
        // CBMC (measured: a 2-entry table ran out of memory at 14 GB with `with_capacity(old.len())`)
        let old = core::mem::take(&mut self.m_items);
        if old.len() > M_MAX { panic!("model capacity exceeded: smallvec stub M_MAX"); }
        let mut keep: Vec<A::Item> = Vec::with_capacity(M_MAX);
        let mut removed: Vec<A::Item> = Vec::with_capacity(M_MAX);
        // items are written straight into the pre-sized buffers (`Vec::push` would drag its growth path - a
        // reallocation of symbolic size - into every unwound iteration)
        let mut nk = 0usize;
        let mut nr = 0usize;
        for mut item in old
        {
            if filter(&mut item) { unsafe { core::ptr::write(removed.as_mut_ptr().add(nr), item); } nr += 1; }
            else { unsafe { core::ptr::write(keep.as_mut_ptr().add(nk), item); } nk += 1; }
        }
        unsafe { keep.set_len(nk); removed.set_len(nr); }
        self.m_items = keep;
        removed.into_iter()
    }
}

impl<A: Array> Deref for SmallVec<A> { type Target = [A::Item]; fn deref(&self) -> &[A::Item] { self.m_items.as_slice() } }
impl<A: Array> DerefMut for SmallVec<A> { fn deref_mut(&mut self) -> &mut [A::Item] { self.m_items.as_mut_slice() } }
impl<A: Array> IntoIterator for SmallVec<A>
{
    type Item = A::Item;
    type IntoIter = std::vec::IntoIter<A::Item>;
    fn into_iter(self) -> Self::IntoIter { self.m_items.into_iter() }
}
impl<'a, A: Array> IntoIterator for &'a SmallVec<A>
{
    type Item = &'a A::Item;
    type IntoIter = core::slice::Iter<'a, A::Item>;
    fn into_iter(self) -> Self::IntoIter { self.m_items.iter() }
}
impl<A: Array> Clone for SmallVec<A> where A::Item: Clone { fn clone(&self) -> Self { SmallVec{ m_items: self.m_items.clone() } } }
impl<A: Array> core::fmt::Debug for SmallVec<A> where A::Item: core::fmt::Debug
{
    fn fmt(&self, f: &mut core::fmt::Formatter<'_>) -> core::fmt::Result { f.write_str("SmallVec") }
}
impl<A: Array> PartialEq for SmallVec<A> where A::Item: PartialEq { fn eq(&self, o: &Self) -> bool { self.m_items == o.m_items } }
