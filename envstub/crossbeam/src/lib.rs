//! Environment stub for `crossbeam::channel`.
//!
//! Contract assumed (and the only behaviour the real code relies on): an unbounded channel
//! delivers every message sent exactly once, in FIFO order; `send` never blocks and succeeds
//! while a receiver exists; `try_recv` returns `Err(Empty)` when nothing is queued.
//! Threads are NOT modelled (Kani has no concurrency).
//!
//! Representation chosen for CBMC: channel state lives in `static mut` tables indexed by a channel id handed out
//! by `unbounded()`.  Senders and receivers are plain ids (no `Arc`, no heap): CBMC keeps globals with constant
//! indices constant during symbolic execution, so "what was sent" stays concrete where the harness is concrete,
//! and dropping a sender has no drop glue to explore.  Messages are stored as their 8 raw bytes; the real code
//! only ever sends `Entity` (8 bytes, `Copy`), a larger or non-`Copy`-like message type is a loud failure.
pub mod channel
{
    use core::marker::PhantomData;

    /// capacity of a model channel and number of channels per harness (exceeding either is a loud failure)
    pub const CAP: usize = 8;
    pub const CHANNELS: usize = 4;

    // Every static starts from a distinctive non-zero bit pattern and is used relative to it.  Measured with Kani
    // 0.68: a `static mut X: usize = 0` shared its storage with the standard library's zero constants (after
    // `NEXT = 1` every `Vec::new()` reported capacity 1), so all-zero initial values must be avoided.
    const B_ITEMS: u64 = 0x5EED_0000_0000_0001;
    const B_LEN: usize = 0x5EED_0000_0000_0100;
    const B_HEAD: usize = 0x5EED_0000_0000_0200;
    const B_NEXT: usize = 0x5EED_0000_0000_0300;
    static mut ITEMS: [[u64; CAP]; CHANNELS] = [[B_ITEMS; CAP]; CHANNELS];
    static mut LEN: [usize; CHANNELS] = [B_LEN; CHANNELS];
    static mut HEAD: [usize; CHANNELS] = [B_HEAD; CHANNELS];
    static mut NEXT: usize = B_NEXT;

    pub struct Sender<T>(usize, PhantomData<fn(T)>);
    pub struct Receiver<T>(usize, PhantomData<fn() -> T>);

    impl<T> Clone for Sender<T> { fn clone(&self) -> Self { Self(self.0, PhantomData) } }
    impl<T> Clone for Receiver<T> { fn clone(&self) -> Self { Self(self.0, PhantomData) } }

    #[derive(Debug)]
    pub struct SendError<T>(pub T);
    #[derive(Debug, Copy, Clone, Eq, PartialEq)]
    pub enum TryRecvError { Empty, Disconnected }

    pub fn unbounded<T>() -> (Sender<T>, Receiver<T>)
    {
        assert!(core::mem::size_of::<T>() == 8, "channel stub: only 8-byte messages (Entity) are modelled");
        unsafe
        {
            let id = NEXT - B_NEXT;
            if id >= CHANNELS { panic!("model capacity exceeded: channel stub CHANNELS"); }
            NEXT = B_NEXT + id + 1;
            LEN[id] = B_LEN;
            HEAD[id] = B_HEAD;
            (Sender(id, PhantomData), Receiver(id, PhantomData))
        }
    }

    impl<T> Sender<T>
    {
        pub fn send(&self, msg: T) -> Result<(), SendError<T>>
        {
            unsafe
            {
                let id = self.0;
                let len = LEN[id] - B_LEN;
                if len >= CAP { panic!("model capacity exceeded: channel stub CAP"); }
                ITEMS[id][len] = core::mem::transmute_copy::<T, u64>(&msg);
                core::mem::forget(msg);
                LEN[id] = B_LEN + len + 1;
            }
            Ok(())
        }
    }

    impl<T> Receiver<T>
    {
        pub fn try_recv(&self) -> Result<T, TryRecvError>
        {
            unsafe
            {
                let id = self.0;
                let head = HEAD[id] - B_HEAD;
                if head >= LEN[id] - B_LEN { return Err(TryRecvError::Empty); }
                let raw = ITEMS[id][head];
                HEAD[id] = B_HEAD + head + 1;
                Ok(core::mem::transmute_copy::<u64, T>(&raw))
            }
        }

        /// Verification-only: number of messages waiting.
        pub fn len(&self) -> usize { unsafe { (LEN[self.0] - B_LEN) - (HEAD[self.0] - B_HEAD) } }
        pub fn is_empty(&self) -> bool { self.len() == 0 }
    }
}
