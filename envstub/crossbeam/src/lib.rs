//! Environment stub for `crossbeam::channel`.
//!
//! Contract assumed (and the only behaviour the real code relies on): an unbounded channel
//! delivers every message sent exactly once, in FIFO order; `send` never blocks and succeeds
//! while a receiver exists; `try_recv` returns `Err(Empty)` when nothing is queued.
//! Threads are NOT modelled (Kani has no concurrency).
pub mod channel
{
    use std::cell::UnsafeCell;
    use std::sync::Arc;

    /// capacity of the model channel (exceeding it is a loud failure); an inline array, not a `Vec`: sending happens
    /// inside `Drop` impls that CBMC explores under symbolic guards, and a `Vec::push` there drags its growth path along
    pub const CAP: usize = 8;
    struct Chan<T>
    {
        items: [Option<T>; CAP],
        len: usize,
        head: usize,
    }

    struct Shared<T>(UnsafeCell<Chan<T>>);
    // Single-threaded model: never actually shared across threads inside a harness.
    unsafe impl<T: Send> Send for Shared<T> {}
    unsafe impl<T: Send> Sync for Shared<T> {}

    pub struct Sender<T>(Arc<Shared<T>>);
    pub struct Receiver<T>(Arc<Shared<T>>);

    impl<T> Clone for Sender<T> { fn clone(&self) -> Self { Self(self.0.clone()) } }
    impl<T> Clone for Receiver<T> { fn clone(&self) -> Self { Self(self.0.clone()) } }

    #[derive(Debug)]
    pub struct SendError<T>(pub T);
    #[derive(Debug, Copy, Clone, Eq, PartialEq)]
    pub enum TryRecvError { Empty, Disconnected }

    pub fn unbounded<T>() -> (Sender<T>, Receiver<T>)
    {
        let shared = Arc::new(Shared(UnsafeCell::new(Chan{ items: [None, None, None, None, None, None, None, None], len: 0, head: 0 })));
        (Sender(shared.clone()), Receiver(shared))
    }

    impl<T> Sender<T>
    {
        pub fn send(&self, msg: T) -> Result<(), SendError<T>>
        {
            let chan = unsafe { &mut *self.0.0.get() };
            if chan.len >= CAP { panic!("model capacity exceeded: channel CAP"); }
            // the slot is None (invariant): written without drop glue for the old value
            unsafe { core::ptr::write(&mut chan.items[chan.len], Some(msg)); }
            chan.len += 1;
            Ok(())
        }
    }

    impl<T> Receiver<T>
    {
        pub fn try_recv(&self) -> Result<T, TryRecvError>
        {
            let chan = unsafe { &mut *self.0.0.get() };
            if chan.head >= chan.len { return Err(TryRecvError::Empty); }
            let item = chan.items[chan.head].take();
            chan.head += 1;
            match item { Some(x) => Ok(x), None => Err(TryRecvError::Empty) }
        }

        /// Verification-only: number of messages waiting.
        pub fn len(&self) -> usize
        {
            let chan = unsafe { &*self.0.0.get() };
            chan.len - chan.head
        }

        pub fn is_empty(&self) -> bool { self.len() == 0 }
    }
}
