"""Kani 0.68 / CBMC 6.11 pipeline under the control of the check driver.

`cargo kani --only-codegen` compiles the harness crate (the real /repo source, include!d) into one goto symbol
table per harness; this module then runs exactly the goto-cc / goto-instrument / cbmc command sequence that
kani-driver 0.68 runs (copied from its `--verbose` output), but one OS process per harness, each under its own
wall-clock and address-space cap, in parallel, with CBMC's JSON output kept for the evidence file.

Verdict rule per harness (stricter than kani-driver's):
  * properties of class `reachability_check` are Kani's assertion-reachability probes: FAILURE = reachable;
  * properties of class `cover` are `kani::cover!`: FAILURE = SATISFIED; every cover must be satisfied;
  * every other property must be SUCCESS.  A failing `unwind` property means the unwind bound is too small:
    reported as INCONCLUSIVE, never as success and never as a violation.
  * timeout / out-of-memory / solver error / missing result = INCONCLUSIVE.
"""
import fcntl, glob, json, os, re, resource, shutil, subprocess, sys, time, hashlib
from concurrent.futures import ThreadPoolExecutor

VERIF = os.path.dirname(os.path.dirname(os.path.abspath(__file__)))
BUILD = os.environ.get("VERIF_BUILD_DIR", os.path.join(VERIF, ".build"))
KANI_HOME = os.path.expanduser("~/.kani/kani-0.68.0")
KANI_LIB_C = os.path.join(KANI_HOME, "library/kani/kani_lib.c")
KANI_BIN = os.path.join(KANI_HOME, "bin")

CBMC_FLAGS = ["--no-malloc-may-fail", "--no-undefined-shift-check", "--no-signed-overflow-check", "--nan-check",
              "--no-self-loops-to-assumptions", "--no-pointer-primitive-check", "--object-bits", "16"]


def env_offline():
    e = dict(os.environ)
    e["CARGO_NET_OFFLINE"] = "true"
    e.pop("RUSTFLAGS", None)
    e["PATH"] = KANI_BIN + ":" + e.get("PATH", "")
    return e


class Lock:
    def __init__(self, name):
        os.makedirs(BUILD, exist_ok=True)
        self.path = os.path.join(BUILD, name + ".lock")

    def __enter__(self):
        self.f = open(self.path, "w")
        fcntl.flock(self.f, fcntl.LOCK_EX)
        return self

    def __exit__(self, *a):
        fcntl.flock(self.f, fcntl.LOCK_UN)
        self.f.close()


def codegen(engine, crate_dir, harnesses, features, workdir, log):
    """Compiles `crate_dir` with Kani for exactly `harnesses` (pretty names) and copies the per-harness symbol
    tables into `workdir`.  Returns {pretty_name: {"symtab": path, "mangled": str, "unwind": int|None}}.
    Raises RuntimeError (=> inconclusive) when the crate does not build or a harness is missing."""
    target = os.path.join(BUILD, engine)
    crate = os.path.basename(crate_dir.rstrip("/"))
    with Lock(engine):
        own = os.path.join(target, "kani", "x86_64-unknown-linux-gnu", "debug", "build", crate)
        shutil.rmtree(own, ignore_errors=True)   # never reuse symbol tables of an older source tree
        cmd = ["cargo", "kani", "-Z", "stubbing", "--only-codegen", "--target-dir", target, "--exact"]
        if features:
            cmd += ["--features", ",".join(features)]
        for h in harnesses:
            cmd += ["--harness", h]
        t0 = time.time()
        p = subprocess.run(cmd, cwd=crate_dir, env=env_offline(), stdout=subprocess.PIPE, stderr=subprocess.STDOUT,
                           text=True)
        with open(log, "w") as f:
            f.write("$ " + " ".join(cmd) + "\n" + p.stdout)
        if p.returncode != 0:
            errs = [l for l in p.stdout.split("\n") if l.startswith("error")]
            raise RuntimeError(f"harness crate {engine} does not build against /repo's current source "
                               f"(see {log}): " + "; ".join(errs[:5]))
        metas = glob.glob(os.path.join(own, "*", "out", "*.kani-metadata.json"))
        found = {}
        for m in metas:
            with open(m) as f:
                md = json.load(f)
            for h in md.get("proof_harnesses", []):
                found[h["pretty_name"]] = h
        out = {}
        os.makedirs(workdir, exist_ok=True)
        for h in harnesses:
            if h not in found:
                raise RuntimeError(f"harness {h} not produced by the Kani compiler (renamed or removed?)")
            md = found[h]
            dst = os.path.join(workdir, hashlib.sha1(h.encode()).hexdigest()[:12] + ".symtab.out")
            shutil.copyfile(md["goto_file"], dst)
            out[h] = {"symtab": dst, "mangled": md["mangled_name"], "unwind": md["attributes"].get("unwind_value"),
                      "file": md.get("original_file"), "line": md.get("original_start_line")}
        return out, time.time() - t0


def _limits(mem_gb):
    def f():
        b = int(mem_gb * (1 << 30))
        resource.setrlimit(resource.RLIMIT_AS, (b, b))
        os.setsid()
    return f


def _run(cmd, timeout, mem_gb, stdout_path=None):
    t0 = time.time()
    out = open(stdout_path, "w") if stdout_path else subprocess.PIPE
    try:
        p = subprocess.Popen(cmd, env=env_offline(), stdout=out, stderr=subprocess.STDOUT, preexec_fn=_limits(mem_gb))
        try:
            so, _ = p.communicate(timeout=timeout)
            rc = p.returncode
        except subprocess.TimeoutExpired:
            try:
                os.killpg(p.pid, 9)
            except Exception:
                p.kill()
            p.wait()
            return "timeout", None, time.time() - t0
    finally:
        if stdout_path:
            out.close()
    return rc, (so.decode(errors="replace") if so else None), time.time() - t0


def prepare_goto(info, timeout=300):
    """goto-cc / goto-instrument steps of kani-driver 0.68; returns the path of the final goto binary."""
    sym = info["symtab"]
    out = sym[:-len(".symtab.out")] + ".out"
    steps = [
        ["goto-cc", sym, KANI_LIB_C, "-o", out],
        ["goto-cc", out, "--function", info["mangled"], "-o", out],
    ]
    for s in steps:
        rc, so, _ = _run(s, timeout, 16)
        if rc != 0:
            raise RuntimeError(f"{s[0]} failed ({rc}): {(so or '')[-400:]}")
    if info.get("replace_calls"):
        replace_calls(out, info, timeout)
    if info.get("fp_restrict"):
        restrict_function_pointers(out, info, timeout)
    steps = [
        ["goto-instrument", "--add-library", "--no-malloc-may-fail", out, out],
        ["goto-instrument", "--generate-function-body-options", "assert-false-assume-false",
         "--generate-function-body", ".*", "--drop-unused-functions", out, out],
        ["goto-instrument", "--ensure-one-backedge-per-target", out, out],
    ]
    for s in steps:
        rc, so, _ = _run(s, timeout, 16)
        if rc != 0:
            raise RuntimeError(f"{s[0]} failed ({rc}): {(so or '')[-400:]}")
    return out


def _list_functions(out, timeout=300):
    rc, so, _ = _run(["goto-instrument", "--list-goto-functions", out], timeout, 16)
    if rc != 0 or not so:
        raise RuntimeError("goto-instrument --list-goto-functions failed")
    fns = []      # (pretty, mangled)
    for line in so.split("\n"):
        m = re.match(r"^(.*) /\* (\S+?)(, body not available)? \*/\s*$", line)
        if m and not m.group(3):
            fns.append((m.group(1), m.group(2)))
    return fns


def replace_calls(out, info, timeout=300):
    """goto-instrument --replace-calls F:G: every DIRECT call of F becomes a call of G (same type required).  Used to
    cut a recursion at its first level: the harness enters the real function through a function pointer (an indirect
    call, which is not rewritten and is then restricted to F), while the function's own recursive calls are direct and
    go to a recorder G.  The code under test is the real body of F; G stands for the nested call's specification.
    spec: list of [regex of F's pretty name, regex of G's pretty name]; both must match exactly one function."""
    fns = _list_functions(out, timeout)
    args, applied = [], []
    for frm, to in info["replace_calls"]:
        f = [mg for (pr, mg) in fns if re.search(frm, pr)]
        g = [mg for (pr, mg) in fns if re.search(to, pr)]
        if len(f) != 1 or len(g) != 1:
            raise RuntimeError(f"replace-calls {frm} -> {to}: expected exactly one function each, found {len(f)} / {len(g)}")
        args += ["--replace-calls", f"{f[0]}:{g[0]}"]
        applied.append({"direct_calls_of": frm, "go_to": to})
    rc, so, _ = _run(["goto-instrument"] + args + [out, out], timeout, 16)
    if rc != 0:
        raise RuntimeError(f"goto-instrument --replace-calls failed ({rc}): {(so or '')[-600:]}")
    info["replace_calls_applied"] = applied


def restrict_function_pointers(out, info, timeout=300):
    """Per-call-site restriction of indirect calls (goto-instrument --restrict-function-pointer), applied before CBMC's
    own function-pointer removal.  CBMC's removal makes every address-taken function of a compatible signature a
    candidate (for `fn(&mut World)` that includes `core::fmt` and drop-glue functions); on pointers read back from
    the heap all candidates are then explored.  The restriction replaces the call by a case split over the listed
    targets **followed by `ASSERT false`**: a pointer value outside the list is reported as a failed property, so the
    restriction is checked, not assumed.
    spec: list of [call-site function (regex on the pretty name), [target regexes...]] or
          [call-site, n, [targets]] for the n-th indirect call of that function (default 1).
    Call sites that do not exist in this harness's program are skipped (the function was not reachable)."""
    rc, so, _ = _run(["goto-instrument", "--list-goto-functions", out], timeout, 16)
    if rc != 0 or not so:
        raise RuntimeError("goto-instrument --list-goto-functions failed")
    fns = []      # (pretty, mangled)
    for line in so.split("\n"):
        m = re.match(r"^(.*) /\* (\S+?)(, body not available)? \*/\s*$", line)
        if m and not m.group(3):
            fns.append((m.group(1), m.group(2)))
    args, applied = [], []
    for spec in info["fp_restrict"]:
        site, n, targets = (spec[0], 1, spec[1]) if len(spec) == 2 else spec
        sites = [mg for (pr, mg) in fns if re.search(site, pr)]
        if not sites:
            continue
        tg = []
        for t in targets:
            tg += [mg for (pr, mg) in fns if re.search(t, pr) and mg not in tg]
        if not tg:
            raise RuntimeError(f"function-pointer restriction for {site}: no target function found ({targets})")
        for sm in sites:
            args += ["--restrict-function-pointer", f"{sm}.function_pointer_call.{n}/" + ",".join(tg)]
            applied.append({"call_site": site, "n": n, "targets": len(tg)})
    if args:
        rc, so, _ = _run(["goto-instrument"] + args + [out, out], timeout, 16)
        if rc != 0:
            raise RuntimeError(f"goto-instrument --restrict-function-pointer failed ({rc}): {(so or '')[-600:]}")
    info["fp_restrict_applied"] = applied


PROP_RE = re.compile(r"^(?P<fn>.*)\.(?P<cls>[a-zA-Z_\-]+)\.(?P<n>\d+)$")


def parse_cbmc_json(path):
    """Returns dict(status, props=[...], stats={...}, errors=[...]) from CBMC's --json-ui stream."""
    with open(path) as f:
        text = f.read()
    res = {"props": [], "errors": [], "stats": {}, "cprover_status": None}
    try:
        data = json.loads(text)
    except Exception:
        # truncated stream (killed): salvage nothing
        res["errors"].append("unparseable CBMC output (killed?)")
        m = re.findall(r'"messageText":\s*"([^"]*)"', text)
        res["tail"] = m[-5:]
        return res
    solver_s = 0.0
    for item in data:
        if not isinstance(item, dict):
            continue
        if "messageText" in item:
            mt = item["messageText"]
            mtype = item.get("messageType", "")
            if mtype == "ERROR":
                res["errors"].append(mt)
            m = re.match(r"Runtime Solver: ([0-9.eE+-]+)s", mt)
            if m:
                solver_s += float(m.group(1))
            m = re.match(r"Runtime Symex: ([0-9.eE+-]+)s", mt)
            if m:
                res["stats"]["symex_s"] = float(m.group(1))
            m = re.match(r"size of program expression: (\d+) steps", mt)
            if m:
                res["stats"]["program_steps"] = int(m.group(1))
            m = re.match(r"Generated (\d+) VCC\(s\), (\d+) remaining after simplification", mt)
            if m:
                res["stats"]["vccs"] = int(m.group(1))
                res["stats"]["vccs_after_simplification"] = int(m.group(2))
            m = re.match(r"(\d+) variables, (\d+) clauses", mt)
            if m:
                res["stats"]["sat_variables"] = max(res["stats"].get("sat_variables", 0), int(m.group(1)))
                res["stats"]["sat_clauses"] = max(res["stats"].get("sat_clauses", 0), int(m.group(2)))
        if "result" in item:
            for r in item["result"]:
                name = r.get("property", "")
                m = PROP_RE.match(name)
                cls = m.group("cls") if m else "unknown"
                loc = r.get("sourceLocation", {})
                res["props"].append({
                    "name": name, "class": cls, "status": r.get("status"),
                    "description": re.sub(r"^\[KANI_CHECK_ID_[^\]]*\]\s*", "", r.get("description", "")),
                    "file": loc.get("file"), "line": loc.get("line"), "function": loc.get("function"),
                    "trace": r.get("trace"),
                })
        if "cProverStatus" in item:
            res["cprover_status"] = item["cProverStatus"]
    res["stats"]["solver_s"] = round(solver_s, 3)
    return res


def trace_values(trace, limit=60):
    """Compact view of a CBMC counterexample trace: assignments to harness-level variables."""
    vals = []
    for st in trace or []:
        if st.get("stepType") != "assignment" or st.get("hidden"):
            continue
        lhs = st.get("lhs", "")
        loc = st.get("sourceLocation", {})
        f = loc.get("file", "") or ""
        if "/harness/" not in f and "/repo/src" not in f:
            continue
        v = st.get("value", {})
        val = v.get("data", v.get("name"))
        vals.append({"lhs": lhs, "value": val, "at": f"{os.path.basename(f)}:{loc.get('line')}"})
    return vals[-limit:]


def any_values(trace):
    """The solver's assignment as Kani's concrete playback wants it: the return values of the `kani::any_raw_*` calls, in
    execution order, as little-endian byte vectors (same extraction rule as kani-driver's: assignment steps whose lhs is
    the return-value symbol of a `kani::any_raw_*` function)."""
    vals = []
    for st in trace or []:
        if st.get("stepType") != "assignment":
            continue
        lhs = st.get("lhs") or ""
        fn = (st.get("sourceLocation") or {}).get("function") or ""
        v = st.get("value") or {}
        if lhs.startswith("goto_symex$$return_value") and fn.startswith("kani::any_raw_") and v.get("binary") and v.get("width"):
            bits = v["binary"]
            if len(bits) % 8:
                bits = "0" * (8 - len(bits) % 8) + bits
            vals.append([int(bits[i:i + 8], 2) for i in range(0, len(bits), 8)][::-1])
    return vals


def loop_unwindset(goto, per_function):
    """Maps {function pretty-name substring: bound} to CBMC's --unwindset argument using `cbmc --show-loops` on the final
    goto binary (loop ids are `<mangled function>.<n>`).  A per-loop bound only ever LOWERS the number of iterations explored;
    unwinding assertions stay on, so a bound that is too small makes the query inconclusive, never a pass."""
    if not per_function:
        return []
    rc, so, _ = _run(["cbmc", "--show-loops", goto], 120, 8)
    if rc != 0 or not so:
        raise RuntimeError("cbmc --show-loops failed")
    sets = []
    cur = None
    # recursion bounds: key "rec:<regex on the pretty function name>" -> `<mangled function>:<bound>` (CBMC uses the function
    # identifier as the loop id of a recursion; the recursion unwinding assertion stays on)
    rec = {k[4:]: b for k, b in per_function.items() if k.startswith("rec:")}
    per_function = {k: b for k, b in per_function.items() if not k.startswith("rec:")}
    if rec:
        rc2, so2, _ = _run(["goto-instrument", "--list-goto-functions", goto], 120, 8)
        if rc2 != 0 or not so2:
            raise RuntimeError("goto-instrument --list-goto-functions failed")
        for line in so2.split("\n"):
            m = re.match(r"^(.*) /\* (\S+?)(, body not available)? \*/\s*$", line)
            if m and not m.group(3):
                for rx, bound in rec.items():
                    if re.search(rx, m.group(1)):
                        sets.append(f"{m.group(2)}:{bound}")
    for line in so.split("\n"):
        m = re.match(r"^Loop (\S+):\s*$", line)
        if m:
            cur = m.group(1)
            continue
        m = re.search(r" function (.+?)\s*$", line)
        if m and cur:
            fn = m.group(1)
            for key, bound in per_function.items():
                if key in fn:
                    sets.append(f"{cur}:{bound}")
            cur = None
    return ["--unwindset", ",".join(sets)] if sets else []


def verify(name, info, timeout, mem_gb, workdir, want_trace=False):
    """Runs the full pipeline for one harness.  Returns a result dict with verdict in
    {PASS, FAIL, INCONCLUSIVE}."""
    r = {"harness": name, "unwind": info.get("unwind"), "verdict": "INCONCLUSIVE", "reason": None, "_info": info}
    t0 = time.time()
    try:
        goto = prepare_goto(info)
    except RuntimeError as e:
        r["reason"] = str(e)
        r["wall_s"] = round(time.time() - t0, 2)
        return r
    cmd = ["cbmc"] + CBMC_FLAGS + os.environ.get("VERIF_CBMC_EXTRA", "").split()
    if info.get("unwind") is not None:
        cmd += ["--unwind", str(info["unwind"])]
    try:
        cmd += loop_unwindset(goto, info.get("unwindset"))
    except RuntimeError as e:
        r["reason"] = str(e)
        r["wall_s"] = round(time.time() - t0, 2)
        return r
    cmd += ["--sat-solver", "cadical", "--slice-formula", goto, "--verbosity", "8", "--json-ui"]
    if want_trace:
        cmd += ["--trace"]
    outp = goto + (".trace.json" if want_trace else ".json")
    rc, _, wall = _run(cmd, timeout, mem_gb, stdout_path=outp)
    r["cbmc_wall_s"] = round(wall, 2)
    r["cbmc_cmd"] = " ".join(["cbmc"] + cmd[1:-4] + ["<goto-binary>"] + cmd[-3:])
    if rc == "timeout":
        r["reason"] = f"CBMC exceeded the {timeout}s cap"
        r["wall_s"] = round(time.time() - t0, 2)
        return r
    parsed = parse_cbmc_json(outp)
    r["stats"] = parsed["stats"]
    props = parsed["props"]
    if parsed["errors"] and not props:
        r["reason"] = "CBMC error: " + "; ".join(parsed["errors"][:3])
        if rc in (-9, 137, -6, 134, 1) and any("memory" in e.lower() or "alloc" in e.lower() for e in parsed["errors"]):
            r["reason"] = "CBMC ran out of memory (cap %d GB)" % mem_gb
        r["wall_s"] = round(time.time() - t0, 2)
        return r
    if not props:
        r["reason"] = f"CBMC produced no result (exit {rc}; out of memory under the {mem_gb} GB cap?)"
        r["wall_s"] = round(time.time() - t0, 2)
        return r
    errored = [p for p in props if p["status"] not in ("SUCCESS", "FAILURE")]
    if errored:
        # CBMC reports status ERROR for every property still open when the decision procedure dies
        # (in practice: out of memory under the address-space cap).
        r["reason"] = (f"CBMC's decision procedure failed on {len(errored)} of {len(props)} properties "
                       f"(status {errored[0]['status']}; out of memory under the {mem_gb} GB cap?)")
        r["wall_s"] = round(time.time() - t0, 2)
        return r
    checked = [p for p in props if p["class"] not in ("reachability_check", "cover")]
    covers = [p for p in props if p["class"] == "cover"]
    failed = [p for p in checked if p["status"] != "SUCCESS"]
    unwind_fail = [p for p in failed if p["class"] == "unwind"]
    unsat_covers = [p for p in covers if p["status"] != "FAILURE"]
    r["properties_checked"] = len(checked)
    r["covers"] = len(covers)
    r["covers_satisfied"] = len(covers) - len(unsat_covers)
    r["cover_descriptions"] = [p["description"] for p in covers if p["status"] == "FAILURE"]
    r["failed"] = [{"description": p["description"], "class": p["class"], "file": p["file"], "line": p["line"],
                    "function": p["function"]} for p in failed]
    if want_trace:
        for p in failed:
            if p.get("trace"):
                r["counterexample"] = {"for": p["description"], "values": trace_values(p["trace"])}
                r["playback_vals"] = any_values(p["trace"])
                break
    restr = [p for p in failed if (p["description"] or "").strip() == "assertion" and not p.get("file") and r["_info"].get("fp_restrict")]
    if restr:
        # the `ASSERT false` goto-instrument puts behind a restricted indirect call: a pointer value outside the listed targets
        # reached the call site.  That is a defect of the restriction list (ours), not of the code under test.
        r["verdict"] = "INCONCLUSIVE"
        r["reason"] = ("function-pointer restriction too narrow: an indirect call reached a target outside the listed ones (" +
                       "; ".join(sorted({(p.get("function") or p["name"] or "?") for p in restr})[:3]) + ")")
    elif unwind_fail:
        r["verdict"] = "INCONCLUSIVE"
        r["reason"] = "unwinding assertion failed: the stated unwind bound does not cover a loop (" + \
                      "; ".join(sorted({(p['function'] or '?') for p in unwind_fail})[:3]) + ")"
    elif failed:
        r["verdict"] = "FAIL"
        r["reason"] = "; ".join(sorted({p["description"].strip('"') for p in failed})[:4])
    elif unsat_covers:
        r["verdict"] = "INCONCLUSIVE"
        r["reason"] = "vacuity: cover not satisfiable: " + "; ".join(p["description"] for p in unsat_covers[:3])
    else:
        r["verdict"] = "PASS"
    r["wall_s"] = round(time.time() - t0, 2)
    return r


def verify_all(infos, timeout, mem_gb, workdir, jobs):
    results = {}
    with ThreadPoolExecutor(max_workers=jobs) as ex:
        futs = {ex.submit(verify, n, i, timeout, mem_gb, workdir): n for n, i in infos.items()}
        for f in futs:
            n = futs[f]
            try:
                results[n] = f.result()
            except Exception as e:  # noqa
                results[n] = {"harness": n, "verdict": "INCONCLUSIVE", "reason": f"driver error: {e!r}"}
    return results
