"""Engine R: native confirmation of solver counterexamples.  Decides nothing; nothing is reported as a VIOLATION
unless it reproduces here on the real code.

Two native confirmations are tried, in this order:
  (a) public-API witness: a scenario of /verif/witness (real /repo crate + real Bevy) that exercises the obligation's
      failure family through the public API; exit 1 of the scenario = the property-level expectation is violated.
  (b) Kani concrete playback: the solver's assignment is turned into a unit test by Kani
      (`-Z concrete-playback --concrete-playback=print`) and executed natively (`cargo kani playback`) against the
      same real source; a failing test = the counterexample reproduces on the compiled code.
"""
import hashlib, json, os, re, shutil, subprocess, sys, time

import kani_pipeline as kp

VERIF = kp.VERIF
BUILD = kp.BUILD
WITNESS_DIR = os.path.join(VERIF, "witness")
WITNESS_BIN = os.path.join(BUILD, "witness", "debug", "witness")


def build_witness(log=None):
    repo = os.environ.get("VERIF_REPO", "/repo")
    with kp.Lock("witness"):
        src = WITNESS_DIR
        if repo != "/repo":
            # checks run against another tree (seeded-change evaluation on a scratch worktree): build the witness against THAT
            # tree from a copy of the witness sources whose path dependency is rewritten
            src = os.path.join(BUILD, "witness_src")
            shutil.rmtree(src, ignore_errors=True)
            shutil.copytree(WITNESS_DIR, src, ignore=shutil.ignore_patterns("target", "Cargo.lock"))
            with open(os.path.join(src, "Cargo.toml")) as f:
                toml = f.read()
            with open(os.path.join(src, "Cargo.toml"), "w") as f:
                f.write(toml.replace('path = "/repo"', f'path = "{repo}"'))
        lock = os.path.join(src, "Cargo.lock")
        if not os.path.exists(lock):
            # a scratch worktree has no Cargo.lock (it is not tracked in /repo): fall back to /repo's, then to the witness crate's own
            for cand in (os.path.join(repo, "Cargo.lock"), "/repo/Cargo.lock", os.path.join(WITNESS_DIR, "Cargo.lock")):
                if os.path.exists(cand):
                    shutil.copyfile(cand, lock)
                    break
        p = subprocess.run(["cargo", "build", "--offline", "--target-dir", os.path.join(BUILD, "witness")],
                           cwd=src, env=kp.env_offline(), stdout=subprocess.PIPE, stderr=subprocess.STDOUT, text=True)
        if log:
            with open(log, "w") as f:
                f.write(p.stdout)
        return p.returncode == 0


def run_witness(argv, timeout=120):
    try:
        p = subprocess.run([WITNESS_BIN] + argv, stdout=subprocess.PIPE, stderr=subprocess.PIPE, text=True, timeout=timeout)
    except subprocess.TimeoutExpired:
        return dict(argv=argv, exit="timeout", out="")
    out = p.stdout.strip().split("\n")[-1] if p.stdout.strip() else ""
    rec = dict(argv=argv, exit=p.returncode, out=out)
    if p.returncode not in (0, 1):
        rec["stderr"] = p.stderr[-600:]
    return rec


def signature(pid, o, r):
    descs = sorted({(f["description"] or "").strip('"') for f in (r.get("failed") or [])})
    return dict(property=pid, obligation=o["id"], failed=descs)


def match_known(sig, known):
    for k in known.get("findings", []):
        if k.get("property") != sig["property"]:
            continue
        if k.get("obligation") and k["obligation"] != sig["obligation"]:
            continue
        needle = k.get("failed_contains")
        if needle and not all(needle in d for d in sig["failed"]):
            continue
        return k
    return None


PLAYBACK_RE = re.compile(r"Concrete playback unit test for `([^`]+)`:\s*```\s*(.*?)```", re.S)


def kani_playback_test(engine_dir, engine, harness, features, timeout):
    """Asks Kani for the concrete-playback unit test of a failing harness.  Returns (test_name, test_src) or None."""
    cmd = ["cargo", "kani", "-Z", "stubbing", "--target-dir", os.path.join(BUILD, engine), "-Z", "concrete-playback",
           "--concrete-playback=print", "--exact", "--harness", harness]
    if features:
        cmd += ["--features", ",".join(features)]
    try:
        with kp.Lock(engine):
            p = subprocess.run(cmd, cwd=engine_dir, env=kp.env_offline(), stdout=subprocess.PIPE, stderr=subprocess.STDOUT,
                               text=True, timeout=timeout)
    except subprocess.TimeoutExpired:
        return None
    m = PLAYBACK_RE.search(p.stdout)
    if not m:
        return None
    src = m.group(2).strip()
    nm = re.search(r"fn\s+(kani_concrete_playback_\w+)", src)
    return (nm.group(1) if nm else None, src)


def own_playback_test(harness, vals):
    """Concrete-playback unit test built from OUR CBMC run's trace (the query that failed, with its function-pointer
    restrictions and bounds), in the format Kani's own `--concrete-playback=print` emits."""
    fn = harness.split("::")[-1]
    name = "kani_concrete_playback_" + fn + "_" + hashlib.sha1(json.dumps(vals).encode()).hexdigest()[:12]
    body = "".join("        vec![" + ", ".join(str(b) for b in v) + "],\n" for v in vals)
    src = ("#[test]\nfn " + name + "() {\n    let concrete_vals: Vec<Vec<u8>> = vec![\n" + body + "    ];\n"
           "    kani::concrete_playback_run(concrete_vals, " + fn + ");\n}")
    return name, src


def module_key_of(harness):
    # "react::utils::verif_h::foo" -> "react__utils"
    parts = harness.split("::")
    i = parts.index("verif_h")
    return "__".join(parts[:i])


def run_playback(engine_dir, engine, harness, test_name, test_src, features, timeout=1500):
    """Splices the generated unit test next to the harness and runs it natively with `cargo kani playback`."""
    pb_dir = os.path.join(BUILD, "playback", engine)
    os.makedirs(pb_dir, exist_ok=True)
    key = module_key_of(harness)
    pb_file = os.path.join(pb_dir, key + ".rs")
    with open(pb_file, "w") as f:
        f.write(test_src + "\n")
    try:
        env = kp.env_offline()
        env["VERIF_PLAYBACK_DIR"] = pb_dir
        if engine == "k2":
            env["VERIF_ENGINE"] = "k2"
        subprocess.run([sys.executable, os.path.join(VERIF, "gen", "gen_tree.py"), os.path.join(engine_dir, "src", "lib.rs")],
                       stdout=subprocess.PIPE, env=env, check=True)
        env["CARGO_TARGET_DIR"] = os.path.join(BUILD, engine + "-playback")
        cmd = ["cargo", "kani", "playback", "-Z", "concrete-playback"]
        if features:
            cmd += ["--features", ",".join(features)]
        cmd += ["--", test_name]
        with kp.Lock(engine + "-playback"):
            p = subprocess.run(cmd, cwd=engine_dir, env=env, stdout=subprocess.PIPE, stderr=subprocess.STDOUT, text=True,
                               timeout=timeout)
        out = p.stdout
        ran = re.search(r"test result: (\w+)\. (\d+) passed; (\d+) failed", out)
        panicked = re.findall(r"panicked at [^\n]*\n([^\n]*)", out)
        rec = dict(cmd=" ".join(cmd), exit=p.returncode, ran=bool(ran),
                   failed=int(ran.group(3)) if ran else None, passed=int(ran.group(2)) if ran else None,
                   panic=[x.strip() for x in panicked][:3], tail=out[-800:] if not ran else None)
        rec["reproduced"] = bool(ran) and int(ran.group(3)) >= 1
        return rec
    except subprocess.TimeoutExpired:
        return dict(reproduced=False, note="native playback timed out")
    finally:
        os.remove(pb_file)
        env = kp.env_offline()
        if engine == "k2":
            env["VERIF_ENGINE"] = "k2"
        subprocess.run([sys.executable, os.path.join(VERIF, "gen", "gen_tree.py"), os.path.join(engine_dir, "src", "lib.rs")],
                       stdout=subprocess.PIPE, env=env)


def confirm(pid, tier, o, r, ENGINES, work, cfg, known):
    sig = signature(pid, o, r)
    rec = dict(property=pid, obligation=o["id"], harness=o["harness"], engine=o["engine"], claim=o["claim"],
               failed_checks=r.get("failed"), functions=o["functions"], bounds=o["bounds"], tier=tier)
    # counterexample values from CBMC's trace
    info = r.get("_info")
    tr = {}
    if info:
        tr = kp.verify(o["harness"], info, cfg["timeout"], cfg["mem_gb"], work, want_trace=True)
        rec["counterexample"] = tr.get("counterexample")
    k = match_known(sig, known)
    if k:
        rec["status"] = "known"
        rec["finding"] = k.get("text", "")
        return rec
    # (a) public-API witnesses
    rec["witness_runs"] = []
    reproduced = False
    if o.get("witness"):
        if build_witness(os.path.join(BUILD, "logs", "witness-build.log")):
            for argv in o["witness"]:
                w = run_witness(argv)
                rec["witness_runs"].append(w)
                if w["exit"] == 1:
                    reproduced = True
        else:
            rec["witness_runs"].append(dict(note="witness crate does not build against the current /repo"))
    # (b) native concrete playback of the solver's assignment (skipped when the public API already reproduced it)
    e = ENGINES[o["engine"]]
    pb = None
    if o.get("no_native_playback"):
        # the harness's #[kani::stub]s change behaviour (a recorder stands for a callee); stubs do not exist natively, so a
        # native run of the harness would not execute what the solver executed: only the public-API witness can confirm
        rec["playback"] = dict(skipped="harness depends on behaviour-changing stubs; confirmation is the public-API witness only")
    elif reproduced and not os.environ.get("VERIF_ALWAYS_PLAYBACK"):
        pb = None
    elif tr.get("playback_vals") is not None and tr.get("verdict") == "FAIL":
        pb = own_playback_test(o["harness"], tr["playback_vals"])
    else:
        pb = kani_playback_test(e["dir"], o["engine"], o["harness"], cfg["features"], cfg["timeout"] + 300)
    if o.get("no_native_playback"):
        pass
    elif pb and pb[0]:
        rec["playback_test"] = pb[1]
        rec["playback"] = run_playback(e["dir"], o["engine"], o["harness"], pb[0], pb[1], cfg["features"])
        if rec["playback"].get("reproduced"):
            reproduced = True
    elif reproduced:
        rec["playback"] = dict(skipped="public-API witness already reproduced the violation")
    else:
        rec["playback"] = dict(reproduced=False, note="Kani produced no concrete playback test")
    rec["public_api_reproduced"] = any(w.get("exit") == 1 for w in rec["witness_runs"])
    if reproduced:
        rec["status"] = "reproduced"
        rdir = os.path.join(VERIF, "evidence", "replay")
        os.makedirs(rdir, exist_ok=True)
        h = hashlib.sha1(json.dumps(sig, sort_keys=True).encode()).hexdigest()[:10]
        path = os.path.join(rdir, f"{pid}-{o['id'].replace('.', '_')}-{h}.json")
        rec["replay_file"] = path
        with open(path, "w") as f:
            json.dump(rec, f, indent=1)
    else:
        rec["status"] = "unconfirmed"
        rec["note"] = "neither the public-API witness nor the native playback reproduced the solver's counterexample"
    return rec


def replay_file(path, ENGINES):
    with open(path) as f:
        rec = json.load(f)
    print(f"replaying {rec['property']} / {rec['obligation']} ({rec['harness']})")
    reproduced = False
    if any(w.get("exit") == 1 for w in rec.get("witness_runs", [])):
        if build_witness():
            for w in rec["witness_runs"]:
                if w.get("exit") == 1:
                    again = run_witness(w["argv"])
                    print("  witness", " ".join(w["argv"]), "->", again["out"], "exit", again["exit"])
                    reproduced |= again["exit"] == 1
    if rec.get("playback_test"):
        e = ENGINES[rec["engine"]]
        nm = re.search(r"fn\s+(kani_concrete_playback_\w+)", rec["playback_test"]).group(1)
        feats = ["thorough"] if rec.get("tier") == "thorough" else []
        pb = run_playback(e["dir"], rec["engine"], rec["harness"], nm, rec["playback_test"], feats)
        print("  native playback:", "reproduced" if pb.get("reproduced") else "did not reproduce", pb.get("panic"))
        reproduced |= bool(pb.get("reproduced"))
    if reproduced:
        print(f"VIOLATION property={rec['property']} replay={path}")
        return 1
    print("counterexample does not reproduce on the current tree")
    return 0
