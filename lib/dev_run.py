#!/usr/bin/env python3
"""Development aid (not used by registered commands): run named harnesses of one engine outside the registry.

  lib/dev_run.py k2 <harness pretty name> [...] [--timeout 300] [--mem 12] [--keep] [--fp <restrictions.json>]

Prints verdict, failed properties, stats.  Uses its own work dir under .build/work/dev-<pid>.
"""
import argparse, json, os, sys, shutil, subprocess
HERE = os.path.dirname(os.path.abspath(__file__))
sys.path.insert(0, HERE)
sys.path.insert(0, os.path.join(os.path.dirname(HERE), "harness"))
import kani_pipeline as kp  # noqa

VERIF = os.path.dirname(HERE)


def main():
    ap = argparse.ArgumentParser()
    ap.add_argument("engine")
    ap.add_argument("harness", nargs="+")
    ap.add_argument("--timeout", type=int, default=300)
    ap.add_argument("--mem", type=int, default=12)
    ap.add_argument("--jobs", type=int, default=4)
    ap.add_argument("--keep", action="store_true")
    ap.add_argument("--trace", action="store_true")
    a = ap.parse_args()
    env = dict(os.environ)
    if a.engine == "k2":
        env["VERIF_ENGINE"] = "k2"
    crate = os.path.join(VERIF, a.engine)
    subprocess.run([sys.executable, os.path.join(VERIF, "gen", "gen_tree.py"), os.path.join(crate, "src", "lib.rs")],
                   env=env, stdout=subprocess.DEVNULL, check=True)
    work = os.path.join(kp.BUILD, "work", f"dev-{os.getpid()}")
    os.makedirs(work, exist_ok=True)
    log = os.path.join(work, "codegen.log")
    try:
        infos, cg = kp.codegen(a.engine, crate, a.harness, [], work, log)
    except RuntimeError as e:
        print("BUILD FAILED:", e)
        with open(log) as f:
            t = f.read()
        print(t[-6000:])
        sys.exit(2)
    print(f"codegen {cg:.1f}s")
    try:
        import registry
        for o in registry.OBLIGATIONS:
            if o["harness"] in infos:
                if o.get("unwindset"):
                    infos[o["harness"]]["unwindset"] = o["unwindset"]
                if o.get("fp_restrict"):
                    infos[o["harness"]]["fp_restrict"] = o["fp_restrict"]
    except Exception as e:  # noqa
        print("registry not loaded:", e)
    if os.environ.get("DEV_UNWINDSET"):
        for i in infos.values():
            i["unwindset"] = json.loads(os.environ["DEV_UNWINDSET"])
    if os.environ.get("DEV_REPLACE"):
        for i in infos.values():
            i["replace_calls"] = json.loads(os.environ["DEV_REPLACE"])
    if os.environ.get("DEV_FP"):
        for i in infos.values():
            i["fp_restrict"] = json.loads(os.environ["DEV_FP"])
    if a.trace:
        res = {n: kp.verify(n, i, a.timeout, a.mem, work, want_trace=True) for n, i in infos.items()}
    else:
        res = kp.verify_all(infos, a.timeout, a.mem, work, a.jobs)
    for n, r in res.items():
        print("==", n, r["verdict"], "|", r.get("reason"))
        print("   wall", r.get("wall_s"), "cbmc", r.get("cbmc_wall_s"), "stats", r.get("stats"))
        print("   checked", r.get("properties_checked"), "covers", r.get("covers_satisfied"), "/", r.get("covers"))
        for f in (r.get("failed") or [])[:8]:
            print("   FAILED:", f["description"], f["file"], f["line"])
        if r.get("counterexample"):
            for v in r["counterexample"]["values"][-40:]:
                print("      ", v)
    if not a.keep:
        shutil.rmtree(work, ignore_errors=True)
    else:
        print("work dir:", work)


if __name__ == "__main__":
    main()
