#!/usr/bin/env python3
"""Writes /verif/MANIFEST.json from the obligation registry + the per-property notes below."""
import json, os, sys

VERIF = os.path.dirname(os.path.dirname(os.path.abspath(__file__)))
sys.path.insert(0, os.path.join(VERIF, "harness"))
import registry  # noqa

# property id -> (what the solver decides, what is outside the claim)
NOTES = {
    "C01": ("the five schedule_* dispatch functions from directly written tables: exactly the target's entity-scoped registrations of that kind+type, then the type-wide ones, in order, right variant/ids, nothing else, nothing when nothing matches; revoke kernels never delete other registrations",
            "registration through the deferred register_* systems; tables edited while a dispatch is in flight (runner); lists longer than 3"),
    "C03": ("every tracker's start(r) exposes the oldest entry prepared for r; every reader answers iff reacting AND kind AND type match, with that event's payload / target / source; dispatch stores the event's own payload and target",
            "which postponed command is paired with which pending entry by the recursive runner"),
    "C04": ("readers answer Err when not reacting even while the data entity is alive; system-event payload taken once; end() clears the flag; run_initialized_system through RawCallbackSystem/CallbackSystem: body, cleanup, then deferred commands, for ordinary and exclusive systems and early Err returns",
            "probes at arbitrary tree positions (runner)"),
    "C05": ("reader counter = number of queued reactions; zero listeners: nothing queued, no data entity; counter kernel; every runner-bound Command::apply reaches the runner exactly once also for a vanished reactor (so its share is released); the runner's abort paths (missing / stale / component-less / lost-at-root target) and its root-level discard run the command's own setup then cleanup exactly once; replayed commands keep their own cleanup; end_broadcast_event / end_entity_event take exactly one share off and drop the payload once at the last reader; end_system_event drops an untaken payload",
            "composition of these steps over a whole tree (which end_* runs for which scheduled reader is the runner's pairing by system id)"),
    "C06": ("all ReactCache::revoke_* kernels (first entry of that reactor under that key in that list only; emptied key dropped, sibling lists never), stale despawn ids, EntityReactors::remove (every entry of that reactor under that reaction type, nothing else), revoke_reactor does not stop at a dead entity's trigger, EntityReactor::remove queues the reconstructed revoke, tokens have one entry per bundle member incl. duplicates; completeness for duplicate registrations FAILS = known finding F2",
            "immediacy inside a tree follows from per-command flush (environment); revoke_reactor on populated tables exceeded the caps (only the minimal past-a-dead-entity walk is decided)"),
    "C07": ("mode -> handle kind and exactly-once collection; reference count over clones in three drop orders; in-flight despawn reactions keep the reactor; dead-entity despawn registration releases the handle; revoke kernels never drop neighbours' handles",
            "the runner's garbage-collection points; EntityReactors dropped with its entity"),
    "C08": ("DespawnTracker::drop reports its entity once; register_despawn_reactor: dead entity stores nothing, live entity one handle + one tracker, an existing tracker is never replaced (no spurious report); schedule_despawn_reactions: one reaction per stored handle, entry consumed (at most once per entity), channel drained; schedule_removal_reactions: one poll reacts to every reported removal",
            "removal detection itself is Bevy's RemovedComponents + scheduler (environment); histories between polls; type-wide removal lists inside a poll exceeded the caps"),
    "C10": ("real Arc + Drop signal: nothing receivable while a clone exists, exactly one message after the last drop (three drop orders, second entity's signal alive); clones of the despawner share the channel; garbage_collect_entities despawns exactly the released entities, is not stopped by an already-dead id, never touches an entity with a live clone, is idempotent",
            "threads (Kani has none; the channel is a stub); hierarchies beyond one level"),
    "C11": ("tracker quiescence steps; postponement buffer strands nothing; callback present again after the run; the runner resets the counter and empties the buffer at the root for every pre-state within the bounds (replay step with up to 3 postponed commands), and every abort path runs setup+cleanup; end_* clear every reacting flag",
            "that no tree position other than the root observes counter 0 (composition over the tree); the error path of a system that removed its own storage component"),
    "C12": ("per-system FIFO of all four trackers as an inductive step from any pending list <= 4; postponement buffer FIFO; the runner appends a postponed command behind earlier ones, unchanged, and replays the finished system's postponed commands in the order they were postponed, each with its own setup and cleanup (up to 3 postponed commands, symbolic ownership)",
            "more than 3 postponed commands; the pairing of pending tracker entries with replayed commands across different event kinds"),
    "C13": ("RawCallbackSystem / CallbackSystem: initialized exactly once, Local continues across runs, New -> Initialized never back; spawned / cached syscall systems keep their state per key; storage take/insert round trip; the runner puts the very callback it took back into its storage after the run, at every tree depth, before replaying",
            "persistence observed through whole trees (composition of the runner steps)"),
    "C14": ("React and ReactResInner accessors: reads and get_noreact queue nothing, get_mut exactly one trigger per call, set_if_neq stores + returns old + one trigger iff different; ReactCommands::insert queues try_insert + one trigger iff the entity exists at call time; the dispatch the triggers end in is decided under C01",
            "what the queued trigger closures do when applied (unnameable closure types); an entity dying between queue and apply (design-phase observation F3)"),
    "C16": ("cleanup_reactor_data removes local data iff no registration of that reactor remains on the entity; EntityReactor::remove queues one revoke + one cleanup per distinct entity; tokens name each entity once; entity bundles name the added entity",
            "Reactor/EntityReactor::add and EntityLocal (need applied registration closures); multi-step histories"),
    "C17": ("spawned_syscall, syscall(_with_validation), syscall_once, named_syscall: output returned, commands applied on return, state persists per key over up to three calls and is independent between keys, validation on first use only, missing or running spawned system => Err and nothing runs, self-despawning system still returns its output",
            "nested / re-entrant calls and calls made from commands of other calls"),
    "C18": ("dead-target behaviour, without panic, of: entity-event dispatch (the dead target's own listeners do not run), despawn registration (nothing stored, handle released), stale despawn-revoke ids, revoke_reactor past a dead entity, the collector with dead ids, ReactCommands::insert / EntityReactor::add on a dead id",
            "targets dying while commands for them are postponed or mid-dispatch (runner)"),
}

NOTES["C02"] = ("the recursive runner decomposed into steps on its real body: every runner-bound Command::apply reaches the runner exactly once (also for a vanished target); missing / stale / component-less target: nothing runs, setup+cleanup once; busy target inside a tree: postponed unchanged, nothing runs; idle target: setup, system exactly once, cleanup, callback reinserted, at ANY tree depth; replay step (nested calls recorded): exactly the finished system's postponed commands are re-run, each once, in order, others kept; at the root leftovers are discarded through setup+cleanup and nothing stays postponed",
                "the composition of the steps into whole trees of arbitrary shape and depth (induction over the tree is prose, not a solver query); more than 3 postponed commands; the error path of a system removing its own storage component; where the runner polls removals/despawns and collects garbage")
NOTES["C09"] = ("the ordering ingredients on the real code: a command for an idle system runs in-line inside the runner call (setup, system, cleanup, then the callback's deferred commands: callbacks.*); a command for an executing system is appended behind earlier postponed ones and nothing of it runs now; when a system finishes, its postponed commands are replayed at once, in order, before the runner returns to whatever was queued after it, while other systems' postponed commands keep their order; postponement buffer FIFO",
                "the total order over all runs of a tree = these steps composed with Bevy's per-command flush (environment contract E1, checked by the conformance run, not by the solver); removal/despawn reactions' polling points")
NOTES["C15"] = ("ReactCommands::once on the real code with the revoke recorded: the registration and the wrapper's storage are queued, the token names the wrapper's own entity and all of the bundle's triggers; the wrapper's first invocation runs the user's reactor exactly once, despawns exactly its own entity and revokes exactly its own token; any number (0-2) of later invocations run nothing; an empty bundle registers nothing and hands the reactor to the collector at once; every registration kernel stores exactly one entry under the right kind and type; what the revoke removes: C06; collection: C07/C10",
                "the three pieces joined through the runner in one tree (the wrapper reached by its second trigger while the revoke is still queued is covered only as 'a later invocation does nothing'); revocation before any trigger fires is the C06 obligations plus dispatch exactness (C01), not a separate query")
NOT_APPLICABLE = {
}


def main():
    props = {}
    with open(os.path.join(VERIF, "properties.jsonl")) as f:
        for line in f:
            if line.strip():
                p = json.loads(line)
                props[p["id"]] = p
    checks = []
    na = []
    for pid in sorted(props):
        obs = registry.for_property(pid, "quick")
        if pid in NOT_APPLICABLE or not obs:
            na.append({"property_id": pid, "reason": NOT_APPLICABLE.get(pid, "no solver obligation within reach")})
            continue
        decided, outside = NOTES[pid]
        engines = sorted({o["engine"] for o in obs})
        checks.append({
            "property_id": pid,
            "quick_cmd": f"./check {pid} --tier quick",
            "thorough_cmd": f"./check {pid} --tier thorough",
            "evidence_file": f"/verif/evidence/{pid}.json",
            "replay_cmd_template": "./check --replay {path}",
            "engine": "+".join(engines),
            "level_claimed": {
                "category": "model_checking",
                "text": "Bounded symbolic model checking of the real functions: Kani compiles /repo's unmodified source to a "
                        "CBMC goto program; pre-states have a concrete shape and symbolic contents, one query per shape; each "
                        "obligation is decided by SAT for ALL contents within the stated bounds (unwinding assertions on). "
                        "Decided: " + decided + ". A green result means "
                        "every listed obligation (a necessary condition of the property) holds within bounds, not that the "
                        "whole-tree property is verified.",
                "design_ref": f"DESIGN.md section 4 ({pid})",
            },
            "level_note": "Outside the claim: " + outside + ". Trusted: Kani's MIR->goto translation, CBMC/CaDiCaL, the "
                          "tracing/crossbeam/smallvec stubs, the address-based TypeId::{of,eq} stubs" + (", the envstub/bevy environment model (validated by conformance run + "
                          "public-API replay)" if "k2" in engines else "") + "; per-query stubs (e.g. the runner queries replace "
                          "the collector / removal poll by no-ops or marks and record nested runner calls through a generated function "
                          "twin) and the checked function-pointer restrictions are listed with every query in the evidence file.",
            "technique": "SAT-based bounded model checking (Kani 0.68 -> CBMC 6.11 + CaDiCaL) of the real Rust functions, "
                         "symbolic pre-state + one inductive step per query, encoding regenerated from /repo's source on every run, "
                         "counterexamples replayed natively (concrete playback of the solver's assignment and public-API witness "
                         "scenarios on real Bevy) before a VIOLATION is printed",
        })
    manifest = {
        "version": 1,
        "setup_cmd": "./check --setup",
        "hooks": {
            "guard": "ukoehb_bevy_cobweb_verif",
            "enable": "none needed: harness crates include! /repo's source files unmodified, so private items are visible "
                      "without any hook in /repo (guard name reserved, unused)",
            "baseline_off_cmd": "cd /repo && cargo test --workspace --no-fail-fast --offline",
            "source_commits": [],
            "add_only": True,
        },
        "engines": [
            {"name": "k1", "path": "/verif/k1", "serves_properties": sorted({p for o in registry.OBLIGATIONS if o["engine"] == "k1" for p in o["props"] if p not in NOT_APPLICABLE}),
             "kind_free_text": "Kani/CBMC over /repo's real source with real bevy types; World never constructed"},
            {"name": "k2", "path": "/verif/k2", "serves_properties": sorted({p for o in registry.OBLIGATIONS if o["engine"] == "k2" for p in o["props"] if p not in NOT_APPLICABLE}),
             "kind_free_text": "Kani/CBMC over /repo's real source compiled against a typed environment model of Bevy"},
            {"name": "witness", "path": "/verif/witness", "serves_properties": [c["property_id"] for c in checks],
             "kind_free_text": "native public-API replay on the real crate + real Bevy; decides nothing, confirms counterexamples"},
        ],
        "checks": checks,
        "not_applicable": na,
        "notes": "Solver-based checking of the real code only. exit 2 = inconclusive (never success). See DESIGN.md.",
    }
    with open(os.path.join(VERIF, "MANIFEST.json"), "w") as f:
        json.dump(manifest, f, indent=1)
    print(f"MANIFEST.json: {len(checks)} checks, {len(na)} not applicable")


if __name__ == "__main__":
    main()
