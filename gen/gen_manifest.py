#!/usr/bin/env python3
"""Writes /verif/MANIFEST.json from the obligation registry + the per-property notes below."""
import json, os, sys

VERIF = os.path.dirname(os.path.dirname(os.path.abspath(__file__)))
sys.path.insert(0, os.path.join(VERIF, "harness"))
import registry  # noqa

# property id -> (what the solver decides, what is outside the claim)
NOTES = {
    "C01": ("per-entity table dispatch kernels (iter_rtype/count exact on kind AND type id, registration order)",
            "type-wide tables and the schedule_* dispatch systems until engine K2 covers them; tables edited mid-dispatch; "
            "sizes beyond the bounds"),
    "C03": ("all four *AccessTracker kernels: start(r) exposes the oldest pending entry of r (data entity / source / "
            "reaction type / system) and removes exactly that entry",
            "which postponed command is paired with which entry by the recursive runner; reader methods (need a World)"),
    "C04": ("tracker flag discipline (prepare never sets, start sets, end clears), take-once of system-event payloads",
            "cleanup-before-deferred ordering in run_initialized_system and probes at tree positions (need a World / the runner)"),
    "C05": ("reader-counter kernel (done exactly at the n-th decrement, saturating), count() = number of queued readers per entity table",
            "that every scheduled reader is eventually run-or-aborted exactly once (runner); schedule_* initialisation of the counter until K2"),
    "C06": ("EntityReactors::remove completeness/locality/idempotence; token construction lists exactly the bundle's triggers; "
            "ReactorType::get_entity routing key",
            "type-wide revoke_* functions and revoke_reactor routing until K2; immediacy inside a tree follows from per-command flush (environment)"),
    "C07": ("mode -> handle kind; reference-count conservation over table entries, table drop, in-flight despawn reactions",
            "the runner's garbage-collection points; ReactCache tables as holders until K2"),
    "C10": ("real Arc + Drop signal: receivable iff all clones dropped, exactly once, for every drop order over 2 entities",
            "threads (Kani has no concurrency; crossbeam is a stub); garbage_collect_entities on a World; hierarchy despawn"),
    "C11": ("tracker quiescence (pending count = prepared - started, flag clear after end), buffer remove()/append() strand nothing, "
            "callback present again after insert",
            "the runner's root-level discard/reset and every abort path (recursive runner)"),
    "C12": ("per-system FIFO of all four trackers as an inductive step from any pending list; postponement buffer FIFO",
            "nested replays by the recursive runner"),
    "C16": ("tokens name each entity once (local-data cleanup once per entity); entity bundles name the added entity; iter_reactors lists all registrations",
            "Reactor/EntityReactor add/remove/cleanup_reactor_data and EntityLocal (need a World) until K2"),
}

NOT_APPLICABLE = {
    "C02": "carried by the recursive runner (syscommand_runner replay loop through Bevy's World and boxed FnMut callbacks): not symbolically executable with Kani/CBMC here (DESIGN.md section 1, P1-P3); no function-level obligation is a meaningful necessary condition by itself yet",
    "C08": "removal/despawn detection is Bevy's RemovedComponents + scheduler (environment) plus World-dependent dispatch; not reachable without the K2 environment model",
    "C09": "an ordering relation over all pairs of runs in a tree, produced by Bevy's per-command flush and the recursive replay logic; neither can be symbolically executed here (DESIGN.md section 7)",
    "C13": "needs the system layer (RawCallbackSystem/run_with_cleanup on a World); pending engine K2",
    "C14": "every accessor needs Commands/World; pending engine K2",
    "C15": "the once-wrapper is a closure over World; pending engine K2 stage 2b",
    "C17": "syscall family needs a World and boxed systems; pending engine K2",
    "C18": "dead-target behaviour of World-dependent operations; pending engine K2",
}


def main():
    props = {}
    with open(os.path.join(VERIF, "properties.jsonl")) as f:
        for line in f:
            if line.strip():
                p = json.loads(line)
                props[p["id"]] = p
    checks = []
    na = []
    for pid in sorted(props):
        obs = registry.for_property(pid, "quick")
        if pid in NOT_APPLICABLE or not obs:
            na.append({"property_id": pid, "reason": NOT_APPLICABLE.get(pid, "no solver obligation within reach")})
            continue
        decided, outside = NOTES[pid]
        engines = sorted({o["engine"] for o in obs})
        checks.append({
            "property_id": pid,
            "quick_cmd": f"./check {pid} --tier quick",
            "thorough_cmd": f"./check {pid} --tier thorough",
            "evidence_file": f"/verif/evidence/{pid}.json",
            "replay_cmd_template": "./check --replay {path}",
            "engine": "+".join(engines),
            "level_claimed": {
                "category": "model_checking",
                "text": "Bounded symbolic model checking of the real functions: Kani compiles /repo's unmodified source to a "
                        "CBMC goto program, inputs and pre-states are symbolic, each obligation is decided by SAT for ALL values "
                        "within the stated bounds (unwinding assertions on). Decided: " + decided + ". A green result means "
                        "every listed obligation (a necessary condition of the property) holds within bounds, not that the "
                        "whole-tree property is verified.",
                "design_ref": f"DESIGN.md section 4 ({pid})",
            },
            "level_note": "Outside the claim: " + outside + ". Trusted: Kani's MIR->goto translation, CBMC/CaDiCaL, the "
                          "tracing/crossbeam stubs" + (", the envstub/bevy environment model (validated by conformance run + "
                          "public-API replay)" if "k2" in engines else "") + ".",
            "technique": "SAT-based bounded model checking (Kani 0.68 -> CBMC 6.11 + CaDiCaL) of the real Rust functions, "
                         "symbolic pre-state + one inductive step, counterexamples replayed natively",
        })
    manifest = {
        "version": 1,
        "setup_cmd": "./check --setup",
        "hooks": {
            "guard": "ukoehb_bevy_cobweb_verif",
            "enable": "none needed: harness crates include! /repo's source files unmodified, so private items are visible "
                      "without any hook in /repo (guard name reserved, unused)",
            "baseline_off_cmd": "cd /repo && cargo test --workspace --no-fail-fast --offline",
            "source_commits": [],
            "add_only": True,
        },
        "engines": [
            {"name": "k1", "path": "/verif/k1", "serves_properties": sorted({p for o in registry.OBLIGATIONS if o["engine"] == "k1" for p in o["props"] if p not in NOT_APPLICABLE}),
             "kind_free_text": "Kani/CBMC over /repo's real source with real bevy types; World never constructed"},
            {"name": "k2", "path": "/verif/k2", "serves_properties": sorted({p for o in registry.OBLIGATIONS if o["engine"] == "k2" for p in o["props"] if p not in NOT_APPLICABLE}),
             "kind_free_text": "Kani/CBMC over /repo's real source compiled against a typed environment model of Bevy"},
            {"name": "witness", "path": "/verif/witness", "serves_properties": [c["property_id"] for c in checks],
             "kind_free_text": "native public-API replay on the real crate + real Bevy; decides nothing, confirms counterexamples"},
        ],
        "checks": checks,
        "not_applicable": na,
        "notes": "Solver-based checking of the real code only. exit 2 = inconclusive (never success). See DESIGN.md.",
    }
    with open(os.path.join(VERIF, "MANIFEST.json"), "w") as f:
        json.dump(manifest, f, indent=1)
    print(f"MANIFEST.json: {len(checks)} checks, {len(na)} not applicable")


if __name__ == "__main__":
    main()
