#!/usr/bin/env python3
"""Regenerates a harness crate's module tree from /repo's *current* source.

For every `mod x;` declared in /repo/src/lib.rs, /repo/src/ecs/mod.rs and /repo/src/react/mod.rs the
generated lib.rs contains

    mod x { include!("/repo/src/<dir>/x.rs");
            #[cfg(kani)] mod verif_h { use super::*; include!("<verif>/harness/<dir>__x.rs"); } }

so the real files are compiled *unmodified* and harness code, being a child module of the real module,
can see its private items.  Every other line of the mod.rs files (the `pub use x::*;` re-exports) is copied
verbatim, so `crate::prelude::*` resolves exactly as in the real crate.

Nothing is cached: the tree is re-derived on every run, so added/removed/renamed modules are picked up.
"""
import os, re, sys, hashlib, json

VERIF = os.path.dirname(os.path.dirname(os.path.abspath(__file__)))
REPO = os.environ.get("VERIF_REPO", "/repo")
PLAYBACK = os.environ.get("VERIF_PLAYBACK_DIR")   # set only while a counterexample is replayed natively
ENGINE = os.environ.get("VERIF_ENGINE", "k1")
HARNESS_DIR = "harness" if ENGINE == "k1" else "harness_" + ENGINE   # harness fragments are per engine

MOD_RE = re.compile(r'^\s*(pub(?:\([a-z]+\))?\s+)?mod\s+([A-Za-z_][A-Za-z0-9_]*)\s*;\s*$')


def transform(mod_file, rel_dir, depth, files):
    """Returns the text replacing the body of a module whose declarations live in `mod_file`."""
    out = []
    src_dir = os.path.join(REPO, "src", rel_dir)
    with open(mod_file) as f:
        lines = f.read().split("\n")
    ind = "    " * depth
    for line in lines:
        s = line.strip()
        if s.startswith("#!") or s.startswith("//!"):
            continue  # inner attributes / inner docs cannot be replayed inside a `mod {}` block
        m = MOD_RE.match(line)
        if not m:
            out.append(ind + line if s else "")
            continue
        vis, name = m.group(1) or "", m.group(2)
        file_rs = os.path.join(src_dir, name + ".rs")
        dir_mod = os.path.join(src_dir, name, "mod.rs")
        if os.path.isfile(file_rs):
            key = (rel_dir + "/" if rel_dir else "") + name
            files.append(os.path.relpath(file_rs, REPO))
            harness = os.path.join(VERIF, HARNESS_DIR, key.replace("/", "__") + ".rs")
            # module visibility is widened to `pub` so harness fragments of different modules can share helpers;
            # item visibility inside the real file is untouched.
            out.append(f'{ind}pub mod {name}')
            out.append(f'{ind}{{')
            out.append(f'{ind}    include!("{file_rs}");')
            if os.path.isfile(harness):
                pb = os.path.join(PLAYBACK, key.replace("/", "__") + ".rs") if PLAYBACK else None
                pbinc = f' include!("{pb}");' if pb and os.path.isfile(pb) else ""
                out.append(f'{ind}    #[cfg(kani)] #[allow(unused_imports, dead_code, unused_variables, unused_mut)]')
                out.append(f'{ind}    pub mod verif_h {{ use super::*; use crate::vh::*; include!("{harness}");{pbinc} }}')
            out.append(f'{ind}}}')
        elif os.path.isfile(dir_mod):
            out.append(f'{ind}{vis}mod {name}')
            out.append(f'{ind}{{')
            out.append(transform(dir_mod, os.path.join(rel_dir, name), depth + 1, files))
            out.append(f'{ind}}}')
        else:
            raise SystemExit(f"gen_tree: cannot find module {name} declared in {mod_file}")
    return "\n".join(out)


# Function twins: the text of ONE function item is copied verbatim from /repo's current source, with only the name at
# its definition changed, into <crate>/src/twins/<module>__<fn>.rs.  A harness fragment (a child module of the real
# module, so private items resolve exactly as in the original) include!s the twin.  Calls inside the twin's body still
# name the ORIGINAL function, which the harness replaces by a recorder with #[kani::stub]: this cuts a recursion at its
# first level - the code executed at the top is the real body, the nested calls are recorded (DESIGN.md 2.6).
TWINS = [("react/syscommand_runner.rs", "syscommand_runner", "syscommand_runner_top")]


def extract_fn(text, name):
    m = re.search(r'^(pub(\([a-z]+\))?\s+)?fn\s+' + re.escape(name) + r'\s*\(', text, re.M)
    if not m:
        raise SystemExit(f"gen_tree: function {name} not found (renamed or moved?)")
    i = text.index("{", m.end())
    depth, j = 0, i
    while True:
        c = text[j]
        if c == "{":
            depth += 1
        elif c == "}":
            depth -= 1
            if depth == 0:
                break
        j += 1
    return text[m.start():j + 1], m


def write_twins(crate_src):
    d = os.path.join(crate_src, "twins")
    os.makedirs(d, exist_ok=True)
    for rel, name, new in TWINS:
        with open(os.path.join(REPO, "src", rel)) as f:
            text = f.read()
        body, m = extract_fn(text, name)
        head = body[:m.end() - m.start()]
        twin = re.sub(r'fn\s+' + re.escape(name), "fn " + new, head, count=1) + body[len(head):]
        out = os.path.join(d, rel.replace("/", "__")[:-3] + "__" + name + ".rs")
        banner = f"// GENERATED from /repo/src/{rel}: the item `{name}` verbatim, renamed `{new}` at its definition only.\n"
        old = open(out).read() if os.path.exists(out) else None
        if old != banner + twin + "\n":
            with open(out, "w") as f:
                f.write(banner + twin + "\n")


def main():
    out_path = sys.argv[1]
    write_twins(os.path.dirname(out_path))
    files = []
    body = transform(os.path.join(REPO, "src", "lib.rs"), "", 0, files)
    header = (
        "// GENERATED by /verif/gen/gen_tree.py from /repo/src — do not edit.\n"
        "#![allow(unused_imports, dead_code, unused_variables, unused_mut, unexpected_cfgs)]\n"
        "#![allow(clippy::all)]\n"
        f'#[cfg(kani)] pub mod vh {{ include!("{VERIF}/{HARNESS_DIR}/_helpers.rs"); }}\n'
    )
    text = header + body + "\n"
    os.makedirs(os.path.dirname(out_path), exist_ok=True)
    old = None
    if os.path.exists(out_path):
        with open(out_path) as f:
            old = f.read()
    if old != text:
        with open(out_path, "w") as f:
            f.write(text)
    # source digest (recorded in evidence so a reader can tell which source a run encoded)
    h = hashlib.sha256()
    for rel in sorted(files):
        with open(os.path.join(REPO, rel), "rb") as f:
            h.update(rel.encode() + b"\0" + f.read())
    json.dump({"files": sorted(files), "sha256": h.hexdigest()}, sys.stdout)


if __name__ == "__main__":
    main()
