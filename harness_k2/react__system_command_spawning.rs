// K2 helpers over the real src/react/system_command_spawning.rs (private-field observers for other harness modules).
pub fn storage_has_callback(st: &SystemCommandStorage) -> bool { st.callback.is_some() }
pub fn cleanup_fn(c: &SystemCommandCleanup) -> Option<fn(&mut World)> { c.cleanup }
