// K2 harnesses over the real src/react/react_component.rs.
use bevy::world::{CmdMode, InsertCommand};

#[derive(PartialEq)]
pub struct Hp(pub u8);
impl ReactComponent for Hp {}

/// C14: `React` accessors - reads and the non-reacting accessor queue nothing; `get_mut` queues exactly one trigger
/// per call; `set_if_neq` stores the value, returns the old one and queues exactly one trigger iff the new value
/// differs, otherwise leaves the value alone and queues nothing.
#[kani::proof]
#[kani::stub(core::any::TypeId::of, crate::vh::stub_typeid_of)]
#[kani::stub(<core::any::TypeId as crate::vh::PEq>::eq, crate::vh::stub_typeid_eq)]
#[kani::unwind(4)]
fn react_component_accessors_trigger_exactly()
{
    let mut world = World::new();
    let old: u8 = kani::any();
    let new: u8 = kani::any();
    let e = ent(3);
    let mut r = React{ entity: e, component: Hp(old) };
    let wp = &mut world as *mut World;
    let mut c = cmds(wp);

    assert!(r.get().0 == old && (*r).0 == old);
    let _ = r.get_noreact();
    assert!(world.m_queued() == 0, "C14: reads and get_noreact never trigger");

    let res = r.set_if_neq(&mut c, Hp(new));
    if new == old
    {
        assert!(res.is_none() && r.get().0 == old && world.m_queued() == 0, "C14: set_if_neq with an equal value: no store, no trigger, None");
    }
    else
    {
        assert!(matches!(res, Some(Hp(x)) if x == old) && r.get().0 == new && world.m_queued() == 1, "C14: set_if_neq with a different value: stored, old value returned, exactly one trigger");
    }
    let before = world.m_queued();
    r.get_mut(&mut c).0 = 9;
    assert!(world.m_queued() == before + 1 && r.get().0 == 9, "C14: get_mut triggers exactly once per call");
    let _ = r.get_mut(&mut c);
    assert!(world.m_queued() == before + 2, "C14: every call triggers");
    kani::cover!(new == old, "equal");
    kani::cover!(new != old, "different");
    std::mem::forget(world);
}
