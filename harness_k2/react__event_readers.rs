// K2 harness fragment inside the real src/react/event_readers.rs.

/// introspection for harnesses of sibling modules
pub fn broadcast_payload<T: Send + Sync + 'static>(d: &BroadcastEventData<T>) -> &T { d.read() }
pub fn entity_event_payload<T: Send + Sync + 'static>(d: &EntityEventData<T>) -> (Entity, &T) { d.read() }
