// K2 harness fragment inside the real src/react/event_readers.rs.

/// introspection for harnesses of sibling modules
pub fn broadcast_payload<T: Send + Sync + 'static>(d: &BroadcastEventData<T>) -> &T { d.read() }
pub fn entity_event_payload<T: Send + Sync + 'static>(d: &EntityEventData<T>) -> (Entity, &T) { d.read() }

use bevy::ecs::system::Res;
pub struct Pa(pub u8);
pub struct Pb(pub u8);

/// C03 / C04: `BroadcastEvent::try_read` / `EntityEvent::try_read` answer iff the tracker says "reacting" AND the
/// tracker's data entity carries data of exactly that reader's kind and type; otherwise `Err` - in particular when
/// the data entity is still alive (other listeners pending) but this run is not reacting to it.
#[kani::proof]
#[kani::stub(core::any::TypeId::of, crate::vh::stub_typeid_of)]
#[kani::stub(<core::any::TypeId as crate::vh::PEq>::eq, crate::vh::stub_typeid_eq)]
#[kani::unwind(4)]
fn event_readers_answer_only_while_reacting()
{
    let mut world = World::new();
    let payload: u8 = kani::any();
    let target = ent(30);
    let kind = any_below(3);      // what the data entity carries: 0 broadcast Pa, 1 entity event Pa, 2 broadcast Pb
    let d = match kind
    {
        0 => world.spawn(BroadcastEventData::new(Pa(payload))).id(),
        1 => world.spawn(EntityEventData::new(target, Pa(payload))).id(),
        _ => world.spawn(BroadcastEventData::new(Pb(payload))).id(),
    };
    let other = world.spawn_empty().id();
    let reacting: bool = kani::any();
    let points_at_data: bool = kani::any();
    let tracker = EventAccessTracker{ currently_reacting: reacting, data_entity: if points_at_data { d } else { other }, prepared: Vec::new() };
    let wp = &mut world as *mut World;

    let bro: BroadcastEvent<Pa> = BroadcastEvent{ tracker: Res::m_new(&tracker), data: qry(wp) };
    let ee: EntityEvent<Pa> = EntityEvent{ tracker: Res::m_new(&tracker), data: qry(wp) };
    let bro_b: BroadcastEvent<Pb> = BroadcastEvent{ tracker: Res::m_new(&tracker), data: qry(wp) };

    match bro.try_read()
    {
        Ok(p) => assert!(reacting && points_at_data && kind == 0 && p.0 == payload, "C03/C04: a broadcast is readable only during a run reacting to it, and it is that event's payload"),
        Err(_) => assert!(!(reacting && points_at_data && kind == 0), "C03: the reacting run can read its event"),
    }
    match ee.try_read()
    {
        Ok((t, p)) => assert!(reacting && points_at_data && kind == 1 && t == target && p.0 == payload, "C03/C04: entity event readable only by the reacting run; own target and payload"),
        Err(_) => assert!(!(reacting && points_at_data && kind == 1), "C03: the reacting run can read its event"),
    }
    match bro_b.try_read()
    {
        Ok(p) => assert!(reacting && points_at_data && kind == 2 && p.0 == payload, "C03: a reader of another type sees nothing"),
        Err(_) => assert!(!(reacting && points_at_data && kind == 2), "C03: the reacting run can read its event"),
    }
    assert!(bro.is_empty() == bro.try_read().is_err(), "is_empty agrees with try_read");
    kani::cover!(!reacting && points_at_data && kind == 0, "data entity alive but this run is not reacting");
    kani::cover!(reacting && points_at_data && kind == 0, "reacting to a broadcast");
    std::mem::forget(world);
}

/// introspection of the tracker for harnesses of sibling modules
pub fn evt_prepared_len(t: &EventAccessTracker) -> usize { t.prepared.len() }
pub fn evt_prepared_at(t: &EventAccessTracker, i: usize) -> (SystemCommand, Entity) { t.prepared[i] }
pub fn evt_reacting(t: &EventAccessTracker) -> bool { t.currently_reacting }
pub fn evt_data_entity(t: &EventAccessTracker) -> Entity { t.data_entity }
