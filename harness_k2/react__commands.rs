// K2 harness fragment inside the real src/react/commands.rs.

/// introspection for harnesses of sibling modules
pub fn counter_value(c: &DataEntityCounter) -> usize { c.count }

//-------------------------------------------------------------------------------------------------------------------
// Command::apply of the three runner-bound commands, with the runner replaced by a recorder (C02/C03/C05/C12/C18)
//-------------------------------------------------------------------------------------------------------------------
use crate::react::syscommand_runner::verif_h::{mk_world, Log};
use crate::react::event_readers::verif_h::*;
use crate::react::system_event_reader::verif_h::*;
use crate::react::entity_reaction_readers::verif_h::*;
use crate::react::despawn_reader::verif_h::*;
use core::any::TypeId;

/// what the (stubbed) runner was called with: (calls, command, setup reactor, setup kind, cleanup kind)
/// kinds: 0 default/none, 1 system event, 2 entity reaction, 3 despawn, 4 entity event, 5 broadcast, 9 unknown
pub static mut RUNNER_CALLS: usize = 0x5EED_0900;
pub static mut RUNNER_ARGS: (u32, u32, u32, u8, u8) = (0x5EED, 0, 0, 0, 0);
pub fn runner_calls() -> usize { unsafe { RUNNER_CALLS - 0x5EED_0900 } }
fn setup_kind(f: fn(&mut World, SystemCommand)) -> u8
{
    if f == start_system_event as fn(&mut World, SystemCommand) { 1 }
    else if f == start_entity_reaction as fn(&mut World, SystemCommand) { 2 }
    else if f == start_despawn_reaction as fn(&mut World, SystemCommand) { 3 }
    else if f == start_entity_event as fn(&mut World, SystemCommand) { 4 }
    else if f == start_broadcast_event as fn(&mut World, SystemCommand) { 5 }
    else { 0 }
}
fn cleanup_kind(c: &SystemCommandCleanup) -> u8
{
    match crate::react::system_command_spawning::verif_h::cleanup_fn(c)
    {
        None => 0,
        Some(f) =>
            if f == end_system_event as fn(&mut World) { 1 }
            else if f == end_entity_reaction as fn(&mut World) { 2 }
            else if f == end_despawn_reaction as fn(&mut World) { 3 }
            else if f == end_entity_event as fn(&mut World) { 4 }
            else if f == end_broadcast_event as fn(&mut World) { 5 }
            else { 9 },
    }
}
pub fn record_runner(_world: &mut World, command: SystemCommand, setup: SystemCommandSetup, cleanup: SystemCommandCleanup)
{
    let (reactor, f) = crate::react::syscommand_runner::verif_h::setup_parts(&setup);
    unsafe
    {
        RUNNER_CALLS += 1;
        RUNNER_ARGS = (command.index(), command.generation(), reactor.index(), setup_kind(f), cleanup_kind(&cleanup));
    }
}
fn called_once_with(command: SystemCommand, kind: u8) -> bool
{
    let a = unsafe { RUNNER_ARGS };
    runner_calls() == 1 && a.0 == command.index() && a.1 == command.generation() && a.3 == kind && a.4 == kind
        && (kind == 0 || a.2 == command.index())
}

macro_rules! apply_harness {
    ($name:ident, $body:block) => {
        #[kani::proof]
        #[kani::stub(core::any::TypeId::of, crate::vh::stub_typeid_of)]
        #[kani::stub(<core::any::TypeId as crate::vh::PEq>::eq, crate::vh::stub_typeid_eq)]
        #[kani::stub(crate::react::syscommand_runner::syscommand_runner, record_runner)]
        #[kani::unwind(3)]
        fn $name() $body
    };
}

/// the target of a command: a live entity or (symbolically) a stale id - `apply` must not care (the runner decides)
fn target(world: &mut World) -> SystemCommand
{
    let live = world.spawn_empty().id();
    if kani::any() { SystemCommand(live) } else { SystemCommand(Entity::m_new(live.index(), live.generation() + 1)) }
}

apply_harness!(apply_system_command, {
    let mut world = mk_world();
    let s = target(&mut world);
    s.apply(&mut world);
    assert!(called_once_with(s, 0), "C02: applying a system command hands it to the runner exactly once, with no event setup/cleanup");
    assert!(sysevt_prepared_len(world.resource::<SystemEventAccessTracker>()) == 0 && evt_prepared_len(world.resource::<EventAccessTracker>()) == 0
        && ent_prepared_len(world.resource::<EntityReactionAccessTracker>()) == 0 && desp_prepared_len(world.resource::<DespawnAccessTracker>()) == 0,
        "C03: a manual run prepares no event data");
    kani::cover!(true, "end of harness reached");
    std::mem::forget(world);
});

apply_harness!(apply_event_command, {
    let mut world = mk_world();
    let s = target(&mut world);
    let data = world.spawn_empty().id();
    EventCommand{ system: s, data_entity: data }.apply(&mut world);
    assert!(called_once_with(s, 1), "C02/C05: a system event is handed to the runner exactly once - also when its target is gone - with the system-event setup and cleanup");
    let t = world.resource::<SystemEventAccessTracker>();
    assert!(sysevt_prepared_len(t) == 1 && sysevt_prepared_at(t, 0) == (s, data) && !sysevt_reacting(t), "C03: its data is pending for exactly that system, nobody is reacting yet");
    assert!(evt_prepared_len(world.resource::<EventAccessTracker>()) == 0 && ent_prepared_len(world.resource::<EntityReactionAccessTracker>()) == 0);
    kani::cover!(true, "end of harness reached");
    std::mem::forget(world);
});

apply_harness!(apply_reaction_resource, {
    let mut world = mk_world();
    let s = target(&mut world);
    ReactionCommand::Resource{ reactor: s }.apply(&mut world);
    assert!(called_once_with(s, 0), "C02: a resource-mutation reaction runs its reactor through the runner once, no event data");
    assert!(evt_prepared_len(world.resource::<EventAccessTracker>()) == 0 && ent_prepared_len(world.resource::<EntityReactionAccessTracker>()) == 0);
    kani::cover!(true, "end of harness reached");
    std::mem::forget(world);
});

apply_harness!(apply_reaction_entity, {
    let mut world = mk_world();
    let s = target(&mut world);
    let source = world.spawn_empty().id();
    let rt = match crate::vh::any_below(3) { 0 => EntityReactionType::Insertion(TypeId::of::<u8>()), 1 => EntityReactionType::Mutation(TypeId::of::<u8>()), _ => EntityReactionType::Removal(TypeId::of::<u16>()) };
    ReactionCommand::EntityReaction{ reaction_source: source, reaction_type: rt, reactor: s }.apply(&mut world);
    assert!(called_once_with(s, 2), "C02: an entity reaction is handed to the runner exactly once with the entity-reaction setup and cleanup");
    let t = world.resource::<EntityReactionAccessTracker>();
    assert!(ent_prepared_len(t) == 1 && ent_prepared_at(t, 0) == (s, source, rt) && !ent_reacting(t), "C03: source entity and reaction type are pending for exactly that reactor");
    assert!(evt_prepared_len(world.resource::<EventAccessTracker>()) == 0);
    kani::cover!(true, "end of harness reached");
    std::mem::forget(world);
});

apply_harness!(apply_reaction_despawn, {
    let mut world = mk_world();
    let s = target(&mut world);
    let source = Entity::m_new(5, 3);
    ReactionCommand::Despawn{ reaction_source: source, reactor: s, handle: ReactorHandle::Persistent(s) }.apply(&mut world);
    assert!(called_once_with(s, 3), "C02/C08: a despawn reaction is handed to the runner exactly once with the despawn setup and cleanup");
    let t = world.resource::<DespawnAccessTracker>();
    assert!(desp_prepared_len(t) == 1 && desp_prepared_at(t, 0) == (s, source) && desp_prepared_handle(t, 0).sys_command() == s && !desp_reacting(t),
        "C03/C07: the despawned entity and the reactor's handle are pending for exactly that reactor");
    kani::cover!(true, "end of harness reached");
    std::mem::forget(world);
});

apply_harness!(apply_reaction_entity_event, {
    let mut world = mk_world();
    let s = target(&mut world);
    let tgt = world.spawn_empty().id();
    let data = world.spawn_empty().id();
    ReactionCommand::EntityEvent{ target: tgt, data_entity: data, reactor: s }.apply(&mut world);
    assert!(called_once_with(s, 4), "C02/C05: an entity-event reaction is handed to the runner exactly once - also when the reactor is gone, so that its share of the payload is released");
    let t = world.resource::<EventAccessTracker>();
    assert!(evt_prepared_len(t) == 1 && evt_prepared_at(t, 0) == (s, data), "C03: the event's data entity is pending for that reactor");
    let t = world.resource::<EntityReactionAccessTracker>();
    assert!(ent_prepared_len(t) == 1 && ent_prepared_at(t, 0).0 == s && ent_prepared_at(t, 0).1 == tgt && matches!(ent_prepared_at(t, 0).2, EntityReactionType::Event(_)),
        "C03/C16: the event's target is pending as the reaction source");
    kani::cover!(true, "end of harness reached");
    std::mem::forget(world);
});

apply_harness!(apply_reaction_broadcast, {
    let mut world = mk_world();
    let s = target(&mut world);
    let data = world.spawn_empty().id();
    ReactionCommand::BroadcastEvent{ data_entity: data, reactor: s }.apply(&mut world);
    assert!(called_once_with(s, 5), "C02/C05: a broadcast reaction is handed to the runner exactly once - also when the reactor is gone, so that its share of the payload is released");
    let t = world.resource::<EventAccessTracker>();
    assert!(evt_prepared_len(t) == 1 && evt_prepared_at(t, 0) == (s, data) && !evt_reacting(t), "C03: the event's data entity is pending for that reactor");
    assert!(ent_prepared_len(world.resource::<EntityReactionAccessTracker>()) == 0);
    kani::cover!(true, "end of harness reached");
    std::mem::forget(world);
});

//-------------------------------------------------------------------------------------------------------------------
// what the setup / cleanup function pairs do (C03/C04/C05/C07/C11): start_* claims the pending data, end_* releases it
//-------------------------------------------------------------------------------------------------------------------
/// event payload whose Drop is observable
pub struct Payload(pub u8);
pub static mut PAYLOAD_DROPS: usize = 0x5EED_0A00;
pub fn payload_drops() -> usize { unsafe { PAYLOAD_DROPS - 0x5EED_0A00 } }
impl Drop for Payload { fn drop(&mut self) { unsafe { PAYLOAD_DROPS += 1; } } }

macro_rules! pair_harness {
    ($name:ident, $body:block) => {
        #[kani::proof]
        #[kani::stub(core::any::TypeId::of, crate::vh::stub_typeid_of)]
        #[kani::stub(<core::any::TypeId as crate::vh::PEq>::eq, crate::vh::stub_typeid_eq)]
        #[kani::unwind(4)]
        fn $name() $body
    };
}

/// C05/C03/C04/C11: broadcast: `start` exposes exactly the data pending for this reactor and marks it reacting; `end` clears
/// the flag and takes this reader's share off the payload: the payload is dropped (once) iff this was the last reader.
pair_harness!(pair_broadcast_event, {
    let mut world = mk_world();
    world.m_drop_table::<(BroadcastEventData<Payload>, DataEntityCounter)>();
    let s = SystemCommand(Entity::m_new(3, 1));
    let other = SystemCommand(Entity::m_new(4, 1));
    let readers = crate::vh::any_below(3) as usize + 1;
    let data = world.spawn((BroadcastEventData::new(Payload(7)), DataEntityCounter::new(readers))).id();
    let other_data = world.spawn_empty().id();
    world.resource_mut::<EventAccessTracker>().prepare(other, other_data);      // somebody else's pending event stays untouched
    world.resource_mut::<EventAccessTracker>().prepare(s, data);
    start_broadcast_event(&mut world, s);
    {
        let t = world.resource::<EventAccessTracker>();
        assert!(evt_reacting(t) && evt_data_entity(t) == data, "C03: the run sees the data of the event that caused it");
        assert!(evt_prepared_len(t) == 1 && evt_prepared_at(t, 0) == (other, other_data), "C03/C12: other systems' pending events are untouched");
    }
    assert!(payload_drops() == 0 && world.m_alive(data), "C05: the payload is alive during the run");
    end_broadcast_event(&mut world);
    assert!(!evt_reacting(world.resource::<EventAccessTracker>()), "C04/C11: after the run nobody is reacting");
    if readers == 1 { assert!(!world.m_alive(data) && payload_drops() == 1, "C05: the last reader's cleanup drops the payload, once"); }
    else
    {
        assert!(world.m_alive(data) && payload_drops() == 0, "C05: the payload outlives a reader that is not the last");
        assert!(counter_value(world.get::<DataEntityCounter>(data).unwrap()) == readers - 1, "C05: exactly one share is taken off");
    }
    kani::cover!(readers == 1, "last reader"); kani::cover!(readers == 3, "first of three readers");
    std::mem::forget(world);
});

/// entity event: as broadcast, plus the target entity is exposed as the reaction source and that flag is cleared too
pair_harness!(pair_entity_event, {
    let mut world = mk_world();
    world.m_drop_table::<(EntityEventData<Payload>, DataEntityCounter)>();
    let s = SystemCommand(Entity::m_new(3, 1));
    let tgt = Entity::m_new(5, 2);
    let readers = crate::vh::any_below(2) as usize + 1;
    let data = world.spawn((EntityEventData::new(tgt, Payload(7)), DataEntityCounter::new(readers))).id();
    world.resource_mut::<EntityReactionAccessTracker>().prepare(s, tgt, EntityReactionType::Event(TypeId::of::<()>()));
    world.resource_mut::<EventAccessTracker>().prepare(s, data);
    start_entity_event(&mut world, s);
    {
        let t = world.resource::<EventAccessTracker>();
        assert!(evt_reacting(t) && evt_data_entity(t) == data && evt_prepared_len(t) == 0, "C03: the event's data is exposed");
        let t = world.resource::<EntityReactionAccessTracker>();
        assert!(ent_reacting(t) && ent_current(t).0 == s && ent_current(t).1 == tgt && ent_prepared_len(t) == 0, "C03/C16: the event's target is exposed as the reaction source for this reactor");
    }
    end_entity_event(&mut world);
    assert!(!evt_reacting(world.resource::<EventAccessTracker>()) && !ent_reacting(world.resource::<EntityReactionAccessTracker>()), "C04/C11: both flags are cleared");
    assert!(world.m_alive(data) == (readers > 1) && payload_drops() == (if readers == 1 { 1 } else { 0 }), "C05: payload dropped once, by the last reader only");
    kani::cover!(readers == 1, "last reader"); kani::cover!(readers == 2, "not the last reader");
    std::mem::forget(world);
});

/// system event: single reader: the data entity is despawned by the cleanup, whether or not the payload was taken
pair_harness!(pair_system_event, {
    let mut world = mk_world();
    world.m_drop_table::<(SystemEventData<Payload>,)>();
    let s = SystemCommand(Entity::m_new(3, 1));
    let data = world.spawn(SystemEventData::new(Payload(7))).id();
    world.resource_mut::<SystemEventAccessTracker>().prepare(s, data);
    start_system_event(&mut world, s);
    {
        let t = world.resource::<SystemEventAccessTracker>();
        assert!(sysevt_reacting(t) && sysevt_data_entity(t) == data && sysevt_prepared_len(t) == 0, "C03: the system event's data is exposed to its target");
    }
    assert!(payload_drops() == 0);
    end_system_event(&mut world);
    assert!(!sysevt_reacting(world.resource::<SystemEventAccessTracker>()), "C04/C11: flag cleared");
    assert!(!world.m_alive(data) && payload_drops() == 1, "C05: an untaken system-event payload is dropped with its bookkeeping entity when the run ends");
    kani::cover!(true, "end of harness reached");
    std::mem::forget(world);
});

/// entity reaction: source + type exposed for exactly this reactor; cleared at the end
pair_harness!(pair_entity_reaction, {
    let mut world = mk_world();
    let s = SystemCommand(Entity::m_new(3, 1));
    let other = SystemCommand(Entity::m_new(4, 1));
    let src = Entity::m_new(5, 2);
    let rt = EntityReactionType::Mutation(TypeId::of::<u8>());
    world.resource_mut::<EntityReactionAccessTracker>().prepare(s, src, rt);
    start_entity_reaction(&mut world, s);
    {
        let t = world.resource::<EntityReactionAccessTracker>();
        assert!(ent_reacting(t) && ent_current(t).0 == s && ent_current(t).1 == src && matches!(ent_current(t).2, EntityReactionType::Mutation(_)), "C03: source and reaction type of the causing event");
        assert!(ent_prepared_len(t) == 0, "C03: the pending entry is consumed");
    }
    end_entity_reaction(&mut world);
    assert!(!ent_reacting(world.resource::<EntityReactionAccessTracker>()), "C04/C11: flag cleared");
    kani::cover!(true, "end of harness reached");
    std::mem::forget(world);
});

/// despawn reaction: the despawned entity is exposed; the reactor's handle is held during the run and released at its
/// end - a ref-counted reactor whose last handle this is, is then (and only then) handed to the collector
pair_harness!(pair_despawn_reaction, {
    let mut world = mk_world();
    let s = SystemCommand(Entity::m_new(3, 1));
    let src = Entity::m_new(5, 2);
    let handle = crate::react::react_commands::verif_h::cleanup_handle(world.resource::<AutoDespawner>(), s);
    world.resource_mut::<DespawnAccessTracker>().prepare(s, src, handle);
    assert!(world.resource::<AutoDespawner>().try_recv().is_none(), "C07: a pending despawn reaction keeps its reactor");
    start_despawn_reaction(&mut world, s);
    {
        let t = world.resource::<DespawnAccessTracker>();
        assert!(desp_reacting(t) && desp_source(t) == src && desp_holds_handle(t) && desp_prepared_len(t) == 0, "C03/C08: the despawned entity is exposed to the reactor");
    }
    assert!(world.resource::<AutoDespawner>().try_recv().is_none(), "C07: the reactor is kept while its despawn reaction runs");
    end_despawn_reaction(&mut world);
    {
        let t = world.resource::<DespawnAccessTracker>();
        assert!(!desp_reacting(t) && !desp_holds_handle(t), "C04/C11: flag cleared, handle released");
    }
    assert!(world.resource::<AutoDespawner>().try_recv() == Some(*s) && world.resource::<AutoDespawner>().try_recv().is_none(), "C07: released exactly once, after the run");
    kani::cover!(true, "end of harness reached");
    std::mem::forget(world);
});
