// K2 harness fragment inside the real src/react/commands.rs.

/// introspection for harnesses of sibling modules
pub fn counter_value(c: &DataEntityCounter) -> usize { c.count }
