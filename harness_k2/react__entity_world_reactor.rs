// K2 harnesses over the real src/react/entity_world_reactor.rs.
use bevy::ecs::system::{Res, ResMut};
use core::any::TypeId;
use bevy::world::{CmdMode, RemoveCommand};
pub struct Wa(pub u8);
impl ReactComponent for Wa {}
pub struct TR;
impl EntityWorldReactor for TR
{
    type Triggers = EntityMutationTrigger<Wa>;
    type Local = u8;
    fn reactor(self) -> SystemCommandCallback { SystemCommandCallback::with(|_, _| {}) }
}

/// C16: `cleanup_reactor_data` removes the entity's local data iff no registration of THAT reactor remains on the
/// entity (registrations of other reactors do not keep it, a remaining trigger of this reactor does).
#[kani::proof]
#[kani::stub(core::any::TypeId::of, crate::vh::stub_typeid_of)]
#[kani::stub(<core::any::TypeId as crate::vh::PEq>::eq, crate::vh::stub_typeid_eq)]
#[kani::unwind(4)]
fn cleanup_reactor_data_rule()
{
    let mut world = World::new();
    let me = SystemCommand(ent(41));
    let other = SystemCommand(ent(42));
    let mut table = EntityReactors::default();
    let mut_w = EntityReactionType::Mutation(TypeId::of::<Wa>());
    let ins_w = EntityReactionType::Insertion(TypeId::of::<Wa>());
    table.insert(mut_w, ReactorHandle::Persistent(other));
    let still_mine: bool = kani::any();
    if still_mine { table.insert(ins_w, ReactorHandle::Persistent(me)); }
    let e = world.spawn((table, EntityWorldLocal::<TR>::new(7))).id();
    let mut captured: Vec<RemoveCommand<EntityWorldLocal<TR>>> = Vec::with_capacity(2);
    world.m_capture(&mut captured);
    let wp = &mut world as *mut World;
    cleanup_reactor_data::<TR>(In((me, e)), cmds(wp), qry(wp));
    assert!((captured.len() == 1) == !still_mine, "C16: local data is removed when the reactor's last trigger on the entity is gone, kept otherwise");
    if captured.len() == 1 { assert!(captured[0].0 == e, "C16: on that entity"); }
    assert!(world.m_queued() == captured.len(), "C16: nothing else is queued");
    kani::cover!(still_mine, "another trigger of this reactor remains");
    std::mem::forget(captured); std::mem::forget(world);
}

/// C16 / C06: `EntityReactor::remove` queues the revoke for the reconstructed token and the data cleanup; a missing reactor
/// resource queues nothing.
#[kani::proof]
#[kani::stub(core::any::TypeId::of, crate::vh::stub_typeid_of)]
#[kani::stub(<core::any::TypeId as crate::vh::PEq>::eq, crate::vh::stub_typeid_eq)]
#[kani::unwind(5)]
fn entity_reactor_remove_cleans_every_entity()
{
    let mut world = World::new();
    let present: bool = kani::any();
    let mut res = EntityWorldReactorRes::<TR>::new(SystemCommand(ent(41)));
    let reactor: EntityReactor<TR> = EntityReactor{ inner: if present { Some(ResMut::m_new(&mut res)) } else { None } };
    let e1 = ent(1); let e2 = ent(2);
    let wp = &mut world as *mut World;
    let mut c = cmds(wp);
    let ok = reactor.remove(&mut c, (entity_mutation::<Wa>(e1), entity_mutation::<Wa>(e2), entity_insertion::<Wa>(e1)));
    assert!(ok == present);
    // one cleanup call handles ONE entity (its input is `(reactor, entity)`; cleanup_reactor_data_rule is compiled against that signature,
    // so a batched cleanup makes this crate fail to build = inconclusive, not a false alarm): one call per distinct entity is necessary
    if present { assert!(world.m_queued() == 3, "C16: one revoke + one local-data cleanup for each of the two distinct entities"); }
    else { assert!(world.m_queued() == 0, "C16: a missing world reactor changes nothing"); }
    kani::cover!(present, "reactor present");
    std::mem::forget(world);
}

/// C16 (data follows the last trigger, through the public call): `EntityReactor::remove` applied on a bundle naming two
/// entities, in either order - e_partial still carries another trigger of this reactor afterwards, e_emptied carries none
/// : the local data stays on e_partial and is removed from e_emptied, whatever the order in which the
/// bundle names them.  The revoke itself is recorded (its effect on the tables is written into the pre-state; C06 decides
/// it); the cleanup runs for real, whatever its signature or batching.
fn entity_reactor_remove_end_to_end(partial_first: bool)
{
    let mut world = World::new();
    world.m_drop_table::<bevy::model::cell::LeakAll>();
    world.m_set_cmd_mode(CmdMode::Immediate);
    let me = SystemCommand(ent(41));
    let other = SystemCommand(ent(42));
    let ins_w = EntityReactionType::Insertion(TypeId::of::<Wa>());
    let mut_w = EntityReactionType::Mutation(TypeId::of::<Wa>());
    // tables as the revoke of (mutation Wa on both entities) leaves them
    let mut t_partial = EntityReactors::default();
    t_partial.insert(ins_w, ReactorHandle::Persistent(me));
    let t_emptied = EntityReactors::default();
    let _ = (other, mut_w);
    let e_partial = world.spawn((t_partial, EntityWorldLocal::<TR>::new(1))).id();
    let e_emptied = world.spawn((t_emptied, EntityWorldLocal::<TR>::new(2))).id();
    let mut res = EntityWorldReactorRes::<TR>::new(me);
    let reactor: EntityReactor<TR> = EntityReactor{ inner: Some(ResMut::m_new(&mut res)) };
    let wp = &mut world as *mut World;
    let mut c = cmds(wp);
    let ok = if partial_first { reactor.remove(&mut c, (entity_mutation::<Wa>(e_partial), entity_mutation::<Wa>(e_emptied))) }
             else { reactor.remove(&mut c, (entity_mutation::<Wa>(e_emptied), entity_mutation::<Wa>(e_partial))) };
    assert!(ok && crate::react::react_commands::verif_h::revokes() == 1, "C16/C06: exactly one revoke for the removed bundle");
    assert!(world.m_has::<EntityWorldLocal<TR>>(e_partial), "C16: local data stays while another trigger of this reactor remains on the entity");
    assert!(!world.m_has::<EntityWorldLocal<TR>>(e_emptied), "C16: local data is removed from the entity whose last trigger of this reactor was removed - whichever entity the bundle names first");
    assert!(world.m_queue.is_empty());
    kani::cover!(true, "end of harness reached");
    std::mem::forget(world);
}
#[kani::proof]
#[kani::stub(core::any::TypeId::of, crate::vh::stub_typeid_of)]
#[kani::stub(<core::any::TypeId as crate::vh::PEq>::eq, crate::vh::stub_typeid_eq)]
#[kani::stub(ReactCommands::revoke, crate::react::react_commands::verif_h::record_revoke)]
#[kani::unwind(5)]
fn entity_reactor_remove_partial_first() { entity_reactor_remove_end_to_end(true) }
#[kani::proof]
#[kani::stub(core::any::TypeId::of, crate::vh::stub_typeid_of)]
#[kani::stub(<core::any::TypeId as crate::vh::PEq>::eq, crate::vh::stub_typeid_eq)]
#[kani::stub(ReactCommands::revoke, crate::react::react_commands::verif_h::record_revoke)]
#[kani::unwind(5)]
fn entity_reactor_remove_emptied_first() { entity_reactor_remove_end_to_end(false) }

/// C16 / C18: `EntityReactor::add` on a live entity queues the local data (try_insert, for that entity) and ONE
/// persistent registration; on a dead id, or when the reactor is missing, it queues nothing and returns false.
#[kani::proof]
#[kani::stub(core::any::TypeId::of, crate::vh::stub_typeid_of)]
#[kani::stub(<core::any::TypeId as crate::vh::PEq>::eq, crate::vh::stub_typeid_eq)]
#[kani::unwind(4)]
fn entity_reactor_add_attaches_data_once()
{
    let mut world = World::new();
    let live = world.spawn_empty().id();
    let dead: bool = kani::any();
    let present: bool = kani::any();
    let target = if dead { Entity::m_new(live.index(), live.generation() + 1) } else { live };
    let mut res = EntityWorldReactorRes::<TR>::new(SystemCommand(ent(41)));
    let reactor: EntityReactor<TR> = EntityReactor{ inner: if present { Some(ResMut::m_new(&mut res)) } else { None } };
    let mut captured: Vec<bevy::world::InsertCommand<EntityWorldLocal<TR>>> = Vec::with_capacity(2);
    world.m_capture(&mut captured);
    let wp = &mut world as *mut World;
    let mut c = cmds(wp);
    let data: u8 = kani::any();
    let ok = reactor.add(&mut c, target, data);
    assert!(ok == (present && !dead), "C16/C18: adding a dead entity or using a missing reactor reports failure");
    if ok
    {
        assert!(captured.len() == 1 && captured[0].entity == live && captured[0].try_ && *captured[0].bundle.inner() == data,
            "C16: exactly the given local data is attached to exactly that entity (try_insert: harmless if it dies meanwhile)");
        assert!(world.m_queued() == 2, "C16: plus exactly one registration command (the shared system is never duplicated or spawned)");
        assert!(world.m_nslots == 1, "C16: no new entity / system is reserved");
    }
    else { assert!(world.m_queued() == 0 && captured.len() == 0, "C16/C18: nothing is queued"); }
    kani::cover!(ok, "added");
    kani::cover!(dead && present, "dead entity");
    std::mem::forget(captured); std::mem::forget(world);
}

/// constructors for harnesses of sibling modules (private fields / functions of this module)
pub fn mk_entity_reactor<'w, T: EntityWorldReactor>(res: &'w mut EntityWorldReactorRes<T>) -> EntityReactor<'w, T> { EntityReactor{ inner: Some(ResMut::m_new(res)) } }
pub fn mk_local<T: EntityWorldReactor>(data: T::Local) -> EntityWorldLocal<T> { EntityWorldLocal::new(data) }
