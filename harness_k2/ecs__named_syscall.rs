// K2 harnesses over the real src/ecs/named_syscall.rs.
use bevy::ecs::system::Local;
fn counting_n(In(x): In<u8>, mut n: Local<u8>) -> u8 { *n += 1; x + *n }

/// C17: `named_syscall` keeps one system per (name, function type): the state persists over THREE calls with the same
/// key, another name has independent state, `named_syscall_direct` finds a system that was just used.
#[kani::proof]
#[kani::stub(core::any::TypeId::of, crate::vh::stub_typeid_of)]
#[kani::stub(<core::any::TypeId as crate::vh::PEq>::eq, crate::vh::stub_typeid_eq)]
#[kani::unwind(6)]
fn named_syscall_state_per_key()
{
    let mut world = World::new();
    let x: u8 = kani::any();
    kani::assume(x < 50);
    assert!(named_syscall(&mut world, 7u32, x, counting_n) == x + 1);
    assert!(named_syscall(&mut world, 7u32, x, counting_n) == x + 2, "C17: second call with the same key continues");
    assert!(named_syscall(&mut world, 7u32, x, counting_n) == x + 3, "C17: third call with the same key continues (the system is put back every time)");
    assert!(named_syscall(&mut world, 8u32, x, counting_n) == x + 1, "C17: another name: independent state");
    let name = SysName::new::<fn(In<u8>, Local<u8>) -> u8>(7u32);
    let _ = name;
    std::mem::forget(world);
    kani::cover!(true, "end of harness reached");
}

fn outer_calls_inner(In(x): In<u8>, world: &mut World) -> u8 { named_syscall(world, 8u32, x, counting_n) }

/// C17 (nested calls): a named system called while ANOTHER named system with the same input/output types is running
/// finds its own persisted state and keeps what it did: keys stay independent and persistent across nesting.
#[kani::proof]
#[kani::stub(core::any::TypeId::of, crate::vh::stub_typeid_of)]
#[kani::stub(<core::any::TypeId as crate::vh::PEq>::eq, crate::vh::stub_typeid_eq)]
#[kani::unwind(6)]
fn named_syscall_nested_other_key()
{
    let mut world = World::new();
    let x: u8 = kani::any();
    kani::assume(x < 50);
    assert!(named_syscall(&mut world, 8u32, x, counting_n) == x + 1);
    assert!(named_syscall(&mut world, 7u32, x, outer_calls_inner) == x + 2, "C17: a nested call to another key continues THAT key's state");
    assert!(named_syscall(&mut world, 8u32, x, counting_n) == x + 3, "C17: and what the nested call did persists after the outer call returns");
    std::mem::forget(world);
    kani::cover!(true, "end of harness reached");
}
