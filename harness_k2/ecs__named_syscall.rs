// K2 harnesses over the real src/ecs/named_syscall.rs.
use bevy::ecs::system::Local;
fn counting_n(In(x): In<u8>, mut n: Local<u8>) -> u8 { *n += 1; x + *n }

/// C17: `named_syscall` keeps one system per (name, function type): the state persists over THREE calls with the same
/// key, another name has independent state, `named_syscall_direct` finds a system that was just used.
#[kani::proof]
#[kani::stub(core::any::TypeId::of, crate::vh::stub_typeid_of)]
#[kani::stub(<core::any::TypeId as crate::vh::PEq>::eq, crate::vh::stub_typeid_eq)]
#[kani::unwind(6)]
fn named_syscall_state_per_key()
{
    let mut world = World::new();
    let x: u8 = kani::any();
    kani::assume(x < 50);
    assert!(named_syscall(&mut world, 7u32, x, counting_n) == x + 1);
    assert!(named_syscall(&mut world, 7u32, x, counting_n) == x + 2, "C17: second call with the same key continues");
    assert!(named_syscall(&mut world, 7u32, x, counting_n) == x + 3, "C17: third call with the same key continues (the system is put back every time)");
    assert!(named_syscall(&mut world, 8u32, x, counting_n) == x + 1, "C17: another name: independent state");
    let name = SysName::new::<fn(In<u8>, Local<u8>) -> u8>(7u32);
    let _ = name;
    std::mem::forget(world);
    kani::cover!(true, "end of harness reached");
}

fn outer_calls_inner(In(x): In<u8>, world: &mut World) -> u8 { named_syscall(world, 8u32, x, counting_n) }

/// C17 (nested calls): a named system called while ANOTHER named system with the same input/output types is running
/// finds its own persisted state and keeps what it did: keys stay independent and persistent across nesting.
#[kani::proof]
#[kani::stub(core::any::TypeId::of, crate::vh::stub_typeid_of)]
#[kani::stub(<core::any::TypeId as crate::vh::PEq>::eq, crate::vh::stub_typeid_eq)]
#[kani::unwind(6)]
fn named_syscall_nested_other_key()
{
    let mut world = World::new();
    let x: u8 = kani::any();
    kani::assume(x < 50);
    assert!(named_syscall(&mut world, 8u32, x, counting_n) == x + 1);
    assert!(named_syscall(&mut world, 7u32, x, outer_calls_inner) == x + 2, "C17: a nested call to another key continues THAT key's state");
    assert!(named_syscall(&mut world, 8u32, x, counting_n) == x + 3, "C17: and what the nested call did persists after the outer call returns");
    std::mem::forget(world);
    kani::cover!(true, "end of harness reached");
}

// ---- round 3: the direct entry point, registration, commands applied on return, re-entrant calls --------------------
use bevy::ecs::system::Resource;
pub struct HitsN(pub u8);
impl Resource for HitsN {}
pub struct BumpN;
impl Command for BumpN { fn apply(self, w: &mut World) { w.resource_mut::<HitsN>().0 += 1; } }
fn counting_cmd(In(x): In<u8>, mut c: Commands, mut n: Local<u8>) -> u8 { *n += 1; c.queue(BumpN); x + *n }

/// C17: `named_syscall_direct`: an unknown name is an error and runs nothing; a registered name runs exactly its system,
/// returns its output and has applied the system's commands on return.
#[kani::proof]
#[kani::stub(core::any::TypeId::of, crate::vh::stub_typeid_of)]
#[kani::stub(<core::any::TypeId as crate::vh::PEq>::eq, crate::vh::stub_typeid_eq)]
#[kani::unwind(6)]
fn named_syscall_direct_unknown_then_registered()
{
    let mut world = World::new();
    world.m_apply_table::<(BumpN,)>();
    world.insert_resource(HitsN(0));
    let x: u8 = kani::any();
    kani::assume(x < 50);
    let name = SysName::new_raw::<u8>(7);
    let other = SysName::new_raw::<u8>(8);
    assert!(named_syscall_direct::<In<u8>, u8>(&mut world, name, x).is_err() && world.resource::<HitsN>().0 == 0,
        "C17: an unknown name is an error and runs nothing");
    register_named_system(&mut world, name, counting_cmd);
    assert!(world.resource::<HitsN>().0 == 0, "C17: registering runs nothing");
    assert!(matches!(named_syscall_direct::<In<u8>, u8>(&mut world, name, x), Ok(v) if v == x + 1), "C17: output returned, fresh state");
    assert!(world.resource::<HitsN>().0 == 1, "C17: the system's commands are applied before the direct call returns");
    assert!(named_syscall_direct::<In<u8>, u8>(&mut world, other, x).is_err() && world.resource::<HitsN>().0 == 1,
        "C17: another name is still unknown: error, nothing runs");
    assert!(world.m_queue.is_empty());
    std::mem::forget(world);
    kani::cover!(true, "end of harness reached");
}

/// C17: two registered names whose systems have the same function type keep independent state.
#[kani::proof]
#[kani::stub(core::any::TypeId::of, crate::vh::stub_typeid_of)]
#[kani::stub(<core::any::TypeId as crate::vh::PEq>::eq, crate::vh::stub_typeid_eq)]
#[kani::unwind(6)]
fn named_syscall_direct_two_names()
{
    let mut world = World::new();
    let x: u8 = kani::any();
    kani::assume(x < 50);
    let name = SysName::new_raw::<u8>(7);
    let other = SysName::new_raw::<u8>(8);
    register_named_system(&mut world, name, counting_n);
    register_named_system(&mut world, other, counting_n);
    assert!(matches!(named_syscall_direct::<In<u8>, u8>(&mut world, name, x), Ok(v) if v == x + 1));
    assert!(matches!(named_syscall_direct::<In<u8>, u8>(&mut world, other, x), Ok(v) if v == x + 1), "C17: the second name has its own state");
    assert!(matches!(named_syscall_direct::<In<u8>, u8>(&mut world, name, x), Ok(v) if v == x + 2), "C17: and does not disturb the first name's");
    std::mem::forget(world);
    kani::cover!(true, "end of harness reached");
}

/// C17: `register_named_system` on a name in use replaces its system (documented: "Over-writes the existing system"): the
/// next call starts from a fresh state, and the name stays callable.
#[kani::proof]
#[kani::stub(core::any::TypeId::of, crate::vh::stub_typeid_of)]
#[kani::stub(<core::any::TypeId as crate::vh::PEq>::eq, crate::vh::stub_typeid_eq)]
#[kani::unwind(6)]
fn named_syscall_register_replaces()
{
    let mut world = World::new();
    let x: u8 = kani::any();
    kani::assume(x < 50);
    let name = SysName::new_raw::<u8>(7);
    register_named_system(&mut world, name, counting_n);
    assert!(matches!(named_syscall_direct::<In<u8>, u8>(&mut world, name, x), Ok(v) if v == x + 1));
    register_named_system(&mut world, name, counting_n);
    assert!(matches!(named_syscall_direct::<In<u8>, u8>(&mut world, name, x), Ok(v) if v == x + 1), "C17: re-registering a name replaces its system (fresh state)");
    assert!(matches!(named_syscall_direct::<In<u8>, u8>(&mut world, name, x), Ok(v) if v == x + 2), "C17: which then persists like any other");
    std::mem::forget(world);
    kani::cover!(true, "end of harness reached");
}

/// C17: `named_syscall` applies the called system's commands before it returns, on the first call (system created) and on
/// later calls (system taken from the map); the map entry created by `named_syscall` is the one `named_syscall_direct` finds.
#[kani::proof]
#[kani::stub(core::any::TypeId::of, crate::vh::stub_typeid_of)]
#[kani::stub(<core::any::TypeId as crate::vh::PEq>::eq, crate::vh::stub_typeid_eq)]
#[kani::unwind(6)]
fn named_syscall_commands_applied_on_return()
{
    let mut world = World::new();
    world.m_apply_table::<(BumpN,)>();
    world.insert_resource(HitsN(0));
    let x: u8 = kani::any();
    kani::assume(x < 50);
    assert!(named_syscall(&mut world, 7u32, x, counting_cmd) == x + 1);
    assert!(world.resource::<HitsN>().0 == 1, "C17: commands applied before the first call returns");
    assert!(named_syscall(&mut world, 7u32, x, counting_cmd) == x + 2);
    assert!(world.resource::<HitsN>().0 == 2, "C17: commands applied before a later call returns");
    assert!(world.m_queue.is_empty(), "C17: nothing is left queued");
    std::mem::forget(world);
    kani::cover!(true, "end of harness reached");
}

pub struct Reenter(pub u8);
impl Resource for Reenter {}
pub struct InnerOut(pub u8);
impl Resource for InnerOut {}
pub struct CallAgain;
impl Command for CallAgain
{
    fn apply(self, w: &mut World)
    {
        let r = named_syscall(w, 7u32, 0u8, reentrant);
        w.resource_mut::<InnerOut>().0 = r;
    }
}
fn reentrant(In(x): In<u8>, mut c: Commands, mut n: Local<u8>, mut again: bevy::ecs::system::ResMut<Reenter>) -> u8
{
    *n += 1;
    if again.0 > 0 { again.0 -= 1; c.queue(CallAgain); }
    x + *n
}

/// C17 (calls made from commands of other calls, same key): a command queued by a named system calls the SAME key while
/// the outer call is still in progress.  Documented behaviour (named_syscall.rs "WARNING"): the nested invocation runs on a
/// fresh state which does not persist; the outer-most invocation's state does.  Each invocation runs exactly once, the
/// nested one is applied before the outer call returns, and the key stays usable afterwards.
#[kani::proof]
#[kani::stub(core::any::TypeId::of, crate::vh::stub_typeid_of)]
#[kani::stub(<core::any::TypeId as crate::vh::PEq>::eq, crate::vh::stub_typeid_eq)]
#[kani::unwind(6)]
fn named_syscall_reentrant_same_key()
{
    let mut world = World::new();
    world.m_apply_table::<(CallAgain,)>();
    world.insert_resource(Reenter(1));
    world.insert_resource(InnerOut(99));
    let x: u8 = kani::any();
    kani::assume(x < 50);
    assert!(named_syscall(&mut world, 7u32, x, reentrant) == x + 1, "C17: the outer call returns its own output");
    assert!(world.resource::<InnerOut>().0 == 1, "C17: the nested invocation of a key that is running ran exactly once before the outer call returned, on a fresh state (documented)");
    assert!(world.resource::<Reenter>().0 == 0 && world.m_queue.is_empty());
    assert!(named_syscall(&mut world, 7u32, x, reentrant) == x + 2, "C17: the outer-most invocation's state is the one that persists; the key stays usable");
    assert!(world.resource::<InnerOut>().0 == 1, "C17: nothing else ran");
    std::mem::forget(world);
    kani::cover!(true, "end of harness reached");
}
