// K2 harnesses over the real src/react/utils.rs (EntityReactors, tokens).
pub struct Ua(pub u8);
pub struct Ub(pub u8);

fn sysu(i: u8) -> SystemCommand { SystemCommand(ent(10 + i as u32)) }

/// C06 / C01 / C16: `EntityReactors::remove(rtype, id)` deletes EVERY entry of that reactor under that reaction type
/// and nothing else; survivors keep their order; a second application is a no-op.
fn entreactors_remove_kernel(shape: u8)
{
    let mut_a = EntityReactionType::Mutation(TypeId::of::<Ua>());
    let ins_a = EntityReactionType::Insertion(TypeId::of::<Ua>());
    let mut_b = EntityReactionType::Mutation(TypeId::of::<Ub>());
    let ev_a = EntityReactionType::Event(TypeId::of::<Ua>());
    // concrete reaction types, symbolic reactor ids (3 values: duplicates are common)
    let rts: [EntityReactionType; 4] = match shape { 0 => [mut_a, ins_a, mut_a, mut_b], 1 => [ev_a, mut_a, mut_a, ev_a], _ => [mut_a, mut_a, mut_a, ins_a] };
    let n: usize = if shape == 2 { 3 } else { 4 };
    let mut ids = [0u8; 4];
    let mut t = EntityReactors::default();
    // ref-counted handles: every handle read back from the table then holds a VALID pointer whatever variant CBMC
    // assumes for it (a plain handle's payload reinterpreted as an `Arc` pointer is a wild pointer, and dereferencing
    // that is what made this harness run out of memory)
    let despawner = crate::ecs::auto_despawn::verif_h::mk_despawner();
    let mut i = 0;
    while i < n { ids[i] = any_below(3); t.insert(rts[i], ReactorHandle::AutoDespawn(despawner.prepare(*sysu(ids[i])))); i += 1; }
    let target = any_below(3);
    let which = any_below(3);
    let rt = match which { 0 => mut_a, 1 => ins_a, _ => ev_a };

    t.remove(rt, sysu(target));

    // shadow: survivors in order
    let mut want_rt = [mut_a; 4]; let mut want_id = [0u8; 4]; let mut m = 0;
    let mut i = 0;
    while i < n
    {
        if !(rts[i] == rt && ids[i] == target) { want_rt[m] = rts[i]; want_id[m] = ids[i]; m += 1; }
        i += 1;
    }
    assert!(t.reactors.len() == m, "C06: exactly the entries of that reactor under that reaction type are removed (all duplicates, nothing else)");
    let mut k = 0;
    while k < m
    {
        assert!(t.reactors[k].0 == want_rt[k] && t.reactors[k].1.sys_command() == sysu(want_id[k]), "C06: survivors keep their identity and order");
        k += 1;
    }
    assert!(t.count(rt) == { let mut c = 0; let mut j = 0; while j < m { if want_rt[j] == rt { c += 1; } j += 1; } c }, "C01: count() agrees with the table");
    t.remove(rt, sysu(target));
    assert!(t.reactors.len() == m, "C06: revoking twice changes nothing");
    kani::cover!(m + 2 == n, "two duplicate registrations removed together");
    kani::cover!(m == n, "absent pair: no-op");
    std::mem::forget(t); std::mem::forget(despawner);
}
#[kani::proof]
#[kani::stub(core::any::TypeId::of, crate::vh::stub_typeid_of)]
#[kani::stub(<core::any::TypeId as crate::vh::PEq>::eq, crate::vh::stub_typeid_eq)]
#[kani::unwind(5)]
fn entreactors_remove_shape0() { entreactors_remove_kernel(0) }
#[kani::proof]
#[kani::stub(core::any::TypeId::of, crate::vh::stub_typeid_of)]
#[kani::stub(<core::any::TypeId as crate::vh::PEq>::eq, crate::vh::stub_typeid_eq)]
#[kani::unwind(5)]
fn entreactors_remove_shape1() { entreactors_remove_kernel(1) }
#[kani::proof]
#[kani::stub(core::any::TypeId::of, crate::vh::stub_typeid_of)]
#[kani::stub(<core::any::TypeId as crate::vh::PEq>::eq, crate::vh::stub_typeid_eq)]
#[kani::unwind(5)]
fn entreactors_remove_shape2() { entreactors_remove_kernel(2) }

/// C16: each entity named by a token is yielded exactly once, in first-occurrence order.
#[kani::proof]
#[kani::stub(core::any::TypeId::of, crate::vh::stub_typeid_of)]
#[kani::stub(<core::any::TypeId as crate::vh::PEq>::eq, crate::vh::stub_typeid_eq)]
#[kani::unwind(5)]
fn token_unique_entities()
{
    let e1 = ent(1); let e2 = ent(2);
    let t = TypeId::of::<Ua>();
    let token = RevokeToken{
        reactors: std::sync::Arc::from(vec![ReactorType::EntityMutation(e1, t), ReactorType::Broadcast(t), ReactorType::EntityInsertion(e2, t), ReactorType::Despawn(e1)].as_slice()),
        id: sysu(0),
    };
    let mut it = token.iter_unique_entities();
    assert!(it.next() == Some(e1) && it.next() == Some(e2) && it.next().is_none(), "C16: every named entity once (local data is cleaned once per entity, no entity is skipped)");
}
