// K2 harnesses over the real src/react/utils.rs (EntityReactors, tokens).
pub struct Ua(pub u8);
pub struct Ub(pub u8);

fn sysu(i: u8) -> SystemCommand { SystemCommand(ent(10 + i as u32)) }

/// C06 / C01 / C16: `EntityReactors::remove(rtype, id)` deletes EVERY entry of that reactor under that reaction type
/// and nothing else; survivors keep their order; a second application is a no-op.
fn rt_of(code: u8) -> EntityReactionType
{
    match code
    {
        0 => EntityReactionType::Mutation(TypeId::of::<Ua>()),
        1 => EntityReactionType::Insertion(TypeId::of::<Ua>()),
        2 => EntityReactionType::Mutation(TypeId::of::<Ub>()),
        _ => EntityReactionType::Event(TypeId::of::<Ua>()),
    }
}

fn entreactors_remove_kernel(shape: u8)
{
    // concrete reaction types (as small codes; the shadow model compares codes, never TypeIds), symbolic reactor ids
    let codes: [u8; 4] = match shape { 0 => [0, 1, 0, 2], 1 => [3, 0, 0, 3], 2 => [0, 0, 0, 1], 3 => [0, 0, 1, 1], _ => [0, 1, 1, 1] };
    let n: usize = if shape == 2 { 3 } else if shape >= 3 { 2 } else { 4 };
    let mut ids = [0u8; 4];
    let mut t = EntityReactors::default();
    let mut i = 0;
    while i < n { ids[i] = any_below(3); t.insert(rt_of(codes[i]), ReactorHandle::Persistent(sysu(ids[i]))); i += 1; }
    let target = any_below(3);
    let which = any_below(3);
    let rt_code: u8 = match which { 0 => 0, 1 => 1, _ => 3 };

    t.remove(rt_of(rt_code), sysu(target));

    // shadow: survivors in order
    let mut want_code = [0u8; 4]; let mut want_id = [0u8; 4]; let mut m = 0;
    let mut i = 0;
    while i < n
    {
        if !(codes[i] == rt_code && ids[i] == target) { want_code[m] = codes[i]; want_id[m] = ids[i]; m += 1; }
        i += 1;
    }
    assert!(t.reactors.len() == m, "C06: exactly the entries of that reactor under that reaction type are removed (all duplicates, nothing else)");
    let mut k = 0;
    while k < m
    {
        assert!(t.reactors[k].0 == rt_of(want_code[k]) && t.reactors[k].1.sys_command() == sysu(want_id[k]), "C06: survivors keep their identity and order");
        k += 1;
    }
    t.remove(rt_of(rt_code), sysu(target));
    assert!(t.reactors.len() == m, "C06: revoking twice changes nothing");
    kani::cover!(shape == 4 || m + 2 == n, "two duplicate registrations removed together (where the shape allows it)");
    kani::cover!(m == n, "absent pair: no-op");
    std::mem::forget(t);
}
#[kani::proof]
#[kani::stub(core::any::TypeId::of, crate::vh::stub_typeid_of)]
#[kani::stub(<core::any::TypeId as crate::vh::PEq>::eq, crate::vh::stub_typeid_eq)]
#[kani::unwind(5)]
fn entreactors_remove_shape0() { entreactors_remove_kernel(0) }
#[kani::proof]
#[kani::stub(core::any::TypeId::of, crate::vh::stub_typeid_of)]
#[kani::stub(<core::any::TypeId as crate::vh::PEq>::eq, crate::vh::stub_typeid_eq)]
#[kani::unwind(5)]
fn entreactors_remove_shape1() { entreactors_remove_kernel(1) }
#[kani::proof]
#[kani::stub(core::any::TypeId::of, crate::vh::stub_typeid_of)]
#[kani::stub(<core::any::TypeId as crate::vh::PEq>::eq, crate::vh::stub_typeid_eq)]
#[kani::unwind(5)]
fn entreactors_remove_shape2() { entreactors_remove_kernel(2) }

/// C16: each entity named by a token is yielded exactly once, in first-occurrence order.
#[kani::proof]
#[kani::stub(core::any::TypeId::of, crate::vh::stub_typeid_of)]
#[kani::stub(<core::any::TypeId as crate::vh::PEq>::eq, crate::vh::stub_typeid_eq)]
#[kani::unwind(5)]
fn token_unique_entities()
{
    let e1 = ent(1); let e2 = ent(2);
    let t = TypeId::of::<Ua>();
    let token = RevokeToken{
        reactors: { let a: std::sync::Arc<[ReactorType; 4]> = std::sync::Arc::new([ReactorType::EntityMutation(e1, t), ReactorType::Broadcast(t), ReactorType::EntityInsertion(e2, t), ReactorType::Despawn(e1)]); a },
        id: sysu(0),
    };
    let mut it = token.iter_unique_entities();
    assert!(it.next() == Some(e1) && it.next() == Some(e2) && it.next().is_none(), "C16: every named entity once (local data is cleaned once per entity, no entity is skipped)");
    kani::cover!(true, "end of harness reached");
}

#[kani::proof]
#[kani::stub(core::any::TypeId::of, crate::vh::stub_typeid_of)]
#[kani::stub(<core::any::TypeId as crate::vh::PEq>::eq, crate::vh::stub_typeid_eq)]
#[kani::unwind(3)]
fn entreactors_remove_two_same_type() { entreactors_remove_kernel(3) }
#[kani::proof]
#[kani::stub(core::any::TypeId::of, crate::vh::stub_typeid_of)]
#[kani::stub(<core::any::TypeId as crate::vh::PEq>::eq, crate::vh::stub_typeid_eq)]
#[kani::unwind(3)]
fn entreactors_remove_two_types() { entreactors_remove_kernel(4) }
