// K2 harnesses over the real src/react/react_cache.rs (child module: private items visible).
use bevy::ecs::system::{Res, ResMut};
use bevy::world::{CommandQueue, CmdMode};

pub struct EvA(pub u8);
pub struct EvB(pub u8);

fn persistent(i: u8) -> ReactorHandle { ReactorHandle::Persistent(SystemCommand(ent(i as u32))) }

/// Registers `n` broadcast reactors with symbolic keys (EvA / EvB) and symbolic reactor ids (< 3) through the real
/// register function; returns the shadow table.
fn build_broadcast_table(cache: &mut ReactCache, n: usize, shadow: &mut [(bool, u8); 4], shape: Option<[bool; 3]>)
{
    let mut i = 0;
    while i < n
    {
        let is_a: bool = match shape { Some(s) => s[i], None => kani::any() };
        let id = any_below(3);
        if is_a { cache.register_broadcast_reactor::<EvA>(persistent(id)); }
        else { cache.register_broadcast_reactor::<EvB>(persistent(id)); }
        shadow[i] = (is_a, id);
        i += 1;
    }
}

#[kani::proof]
#[kani::stub(core::any::TypeId::of, crate::vh::stub_typeid_of)]
#[kani::stub(<core::any::TypeId as crate::vh::PEq>::eq, crate::vh::stub_typeid_eq)]
#[kani::unwind(5)]
fn rc_broadcast_dispatch_exact() { broadcast_dispatch(None, None) }

#[kani::proof]
#[kani::stub(core::any::TypeId::of, crate::vh::stub_typeid_of)]
#[kani::stub(<core::any::TypeId as crate::vh::PEq>::eq, crate::vh::stub_typeid_eq)]
#[kani::unwind(5)]
fn rc_broadcast_dispatch_aba() { broadcast_dispatch(Some(3), Some([true, false, true])) }

fn broadcast_dispatch(n_fixed: Option<usize>, shape: Option<[bool; 3]>)
{
    let mut world = World::new();
    let mut cache = ReactCache::default();
    let n: usize = match n_fixed { Some(n) => n, None => kani::any() };
    kani::assume(n <= 3);
    let mut shadow = [(false, 0u8); 4];
    build_broadcast_table(&mut cache, n, &mut shadow, shape);

    // reaction commands are captured typed (not applied); the spawn-insert command is applied at once
    let mut captured: Vec<ReactionCommand> = Vec::with_capacity(4);
    world.m_capture(&mut captured);
    world.m_set_cmd_mode(CmdMode::Immediate);

    let payload: u8 = kani::any();
    ReactCache::schedule_broadcast_reaction::<EvA>(In(EvA(payload)), Res::m_new(&cache), world.commands());
    world.flush_entities();

    // expected: one ReactionCommand::BroadcastEvent per EvA registration, in registration order
    let mut expected = 0usize;
    let mut i = 0;
    while i < n { if shadow[i].0 { expected += 1; } i += 1; }

    assert!(captured.len() == expected, "exactly one reaction per matching registration");
    if expected == 0
    {
        assert!(world.m_queued() == 0, "no listener: nothing queued");
        assert!(world.m_nslots == 0, "no listener: no data entity reserved");
    }
    else
    {
        assert!(world.m_queued() == expected + 1, "one spawn-insert command + one reaction command per listener");
        let mut k = 0;
        let mut data: Option<Entity> = None;
        let mut i = 0;
        while i < n
        {
            if shadow[i].0
            {
                match &captured[k]
                {
                    ReactionCommand::BroadcastEvent{ data_entity, reactor } =>
                    {
                        assert!(*reactor == SystemCommand(ent(shadow[i].1 as u32)), "listener order = registration order");
                        if let Some(d) = data { assert!(d == *data_entity, "all reactions share one data entity"); }
                        data = Some(*data_entity);
                    }
                    _ => panic!("wrong reaction kind"),
                }
                k += 1;
            }
            i += 1;
        }
        let d = data.unwrap();
        assert!(crate::react::commands::verif_h::counter_value(world.get::<DataEntityCounter>(d).unwrap()) == expected, "reader count = number of queued reactions");
        assert!(crate::react::event_readers::verif_h::broadcast_payload(world.get::<BroadcastEventData<EvA>>(d).unwrap()).0 == payload, "payload stored on the data entity");
        kani::cover!(expected == 2, "two listeners of three registrations");
    }
    kani::cover!(expected == 0 && n == 3, "three registrations, none matching");
    std::mem::forget(captured);
    std::mem::forget(world);
    std::mem::forget(cache);
}

#[kani::proof]
#[kani::stub(core::any::TypeId::of, crate::vh::stub_typeid_of)]
#[kani::stub(<core::any::TypeId as crate::vh::PEq>::eq, crate::vh::stub_typeid_eq)] #[kani::unwind(5)]
fn p1_default() { let cache = ReactCache::default(); assert!(cache.broadcast_reactors.len() == 0); std::mem::forget(cache); }
#[kani::proof]
#[kani::stub(core::any::TypeId::of, crate::vh::stub_typeid_of)]
#[kani::stub(<core::any::TypeId as crate::vh::PEq>::eq, crate::vh::stub_typeid_eq)] #[kani::unwind(5)]
fn p2_reg1() { let mut cache = ReactCache::default(); cache.register_broadcast_reactor::<EvA>(persistent(any_below(3))); assert!(cache.broadcast_reactors.len() == 1); std::mem::forget(cache); }
#[kani::proof]
#[kani::stub(core::any::TypeId::of, crate::vh::stub_typeid_of)]
#[kani::stub(<core::any::TypeId as crate::vh::PEq>::eq, crate::vh::stub_typeid_eq)] #[kani::unwind(5)]
fn p3_reg3() {
    let mut cache = ReactCache::default();
    cache.register_broadcast_reactor::<EvA>(persistent(any_below(3)));
    cache.register_broadcast_reactor::<EvB>(persistent(any_below(3)));
    cache.register_broadcast_reactor::<EvA>(persistent(any_below(3)));
    assert!(cache.broadcast_reactors.len() == 2); std::mem::forget(cache);
}
#[kani::proof]
#[kani::stub(core::any::TypeId::of, crate::vh::stub_typeid_of)]
#[kani::stub(<core::any::TypeId as crate::vh::PEq>::eq, crate::vh::stub_typeid_eq)] #[kani::unwind(5)]
fn p4_sched() {
    let mut world = World::new();
    let mut cache = ReactCache::default();
    cache.register_broadcast_reactor::<EvA>(persistent(any_below(3)));
    cache.register_broadcast_reactor::<EvB>(persistent(any_below(3)));
    cache.register_broadcast_reactor::<EvA>(persistent(any_below(3)));
    let mut captured: Vec<ReactionCommand> = Vec::with_capacity(4);
    world.m_capture(&mut captured);
    world.m_set_cmd_mode(CmdMode::Immediate);
    ReactCache::schedule_broadcast_reaction::<EvA>(In(EvA(1)), Res::m_new(&cache), world.commands());
    assert!(captured.len() == 2);
    std::mem::forget(captured); std::mem::forget(world); std::mem::forget(cache);
}

fn sched_probe(regs: usize, capture: bool, immediate: bool)
{
    let mut world = World::new();
    let mut cache = ReactCache::default();
    if regs >= 1 { cache.register_broadcast_reactor::<EvA>(persistent(any_below(3))); }
    if regs >= 2 { cache.register_broadcast_reactor::<EvA>(persistent(any_below(3))); }
    let mut captured: Vec<ReactionCommand> = Vec::with_capacity(4);
    if capture { world.m_capture(&mut captured); }
    if immediate { world.m_set_cmd_mode(CmdMode::Immediate); }
    ReactCache::schedule_broadcast_reaction::<EvA>(In(EvA(1)), Res::m_new(&cache), world.commands());
    if capture { assert!(captured.len() == regs); } else { assert!(world.m_queued() == if regs == 0 { 0 } else { regs + 1 }); }
    std::mem::forget(captured); std::mem::forget(world); std::mem::forget(cache);
}
#[kani::proof]
#[kani::stub(core::any::TypeId::of, crate::vh::stub_typeid_of)]
#[kani::stub(<core::any::TypeId as crate::vh::PEq>::eq, crate::vh::stub_typeid_eq)] #[kani::unwind(5)] fn q0() { sched_probe(0, true, true) }
#[kani::proof]
#[kani::stub(core::any::TypeId::of, crate::vh::stub_typeid_of)]
#[kani::stub(<core::any::TypeId as crate::vh::PEq>::eq, crate::vh::stub_typeid_eq)] #[kani::unwind(5)] fn q1() { sched_probe(1, true, true) }
#[kani::proof]
#[kani::stub(core::any::TypeId::of, crate::vh::stub_typeid_of)]
#[kani::stub(<core::any::TypeId as crate::vh::PEq>::eq, crate::vh::stub_typeid_eq)] #[kani::unwind(5)] fn q1_rec() { sched_probe(1, false, false) }
#[kani::proof]
#[kani::stub(core::any::TypeId::of, crate::vh::stub_typeid_of)]
#[kani::stub(<core::any::TypeId as crate::vh::PEq>::eq, crate::vh::stub_typeid_eq)] #[kani::unwind(5)] fn q1_cap_rec() { sched_probe(1, true, false) }
#[kani::proof]
#[kani::stub(core::any::TypeId::of, crate::vh::stub_typeid_of)]
#[kani::stub(<core::any::TypeId as crate::vh::PEq>::eq, crate::vh::stub_typeid_eq)] #[kani::unwind(5)] fn q2() { sched_probe(2, true, true) }

#[kani::proof]
#[kani::stub(core::any::TypeId::of, crate::vh::stub_typeid_of)]
#[kani::stub(<core::any::TypeId as crate::vh::PEq>::eq, crate::vh::stub_typeid_eq)] #[kani::unwind(5)]
fn r1_handles() {
    let mut v: Vec<ReactorHandle> = Vec::new();
    let id = any_below(3);
    v.push(persistent(id));
    for h in v.iter() { assert!(h.sys_command() == SystemCommand(ent(id as u32))); }
    std::mem::forget(v);
}
#[kani::proof]
#[kani::stub(core::any::TypeId::of, crate::vh::stub_typeid_of)]
#[kani::stub(<core::any::TypeId as crate::vh::PEq>::eq, crate::vh::stub_typeid_eq)] #[kani::unwind(5)]
fn r2_spawn_cmd() {
    let mut world = World::new();
    let e = world.commands().spawn((DataEntityCounter::new(1), BroadcastEventData::new(EvA(1)))).id();
    assert!(world.m_queued() == 1);
    std::mem::forget(world);
}
#[kani::proof]
#[kani::stub(core::any::TypeId::of, crate::vh::stub_typeid_of)]
#[kani::stub(<core::any::TypeId as crate::vh::PEq>::eq, crate::vh::stub_typeid_eq)] #[kani::unwind(5)]
fn r3_queue_reaction() {
    let mut world = World::new();
    world.commands().queue(ReactionCommand::BroadcastEvent{ data_entity: ent(1), reactor: SystemCommand(ent(2)) });
    assert!(world.m_queued() == 1);
    std::mem::forget(world);
}

/// pre-state built directly (no real-function calls): two keys with `ka` / `kb` listeners, symbolic reactor ids
fn direct_table(cache: &mut ReactCache, ka: usize, kb: usize, ids: &mut [u8; 6])
{
    let mut va: Vec<ReactorHandle> = Vec::with_capacity(4);
    let mut vb: Vec<ReactorHandle> = Vec::with_capacity(4);
    let mut i = 0;
    while i < ka { let id = any_below(3); ids[i] = id; va.push(persistent(id)); i += 1; }
    let mut j = 0;
    while j < kb { let id = any_below(3); ids[3 + j] = id; vb.push(persistent(id)); j += 1; }
    let mut n = 0;
    if ka > 0 { unsafe { core::ptr::write(&mut cache.broadcast_reactors.m_entries[n], Some((TypeId::of::<EvA>(), va))); } n += 1; } else { std::mem::forget(va); }
    if kb > 0 { unsafe { core::ptr::write(&mut cache.broadcast_reactors.m_entries[n], Some((TypeId::of::<EvB>(), vb))); } n += 1; } else { std::mem::forget(vb); }
    cache.broadcast_reactors.m_len = n;
}

fn sched_direct(ka: usize, kb: usize)
{
    let mut world = World::new();
    let mut cache = ReactCache::default();
    let mut ids = [0u8; 6];
    direct_table(&mut cache, ka, kb, &mut ids);
    let mut captured: Vec<ReactionCommand> = Vec::with_capacity(4);
    world.m_capture(&mut captured);
    world.m_set_cmd_mode(CmdMode::Immediate);
    let payload: u8 = kani::any();
    ReactCache::schedule_broadcast_reaction::<EvA>(In(EvA(payload)), Res::m_new(&cache), world.commands());
    assert!(captured.len() == ka, "exactly one reaction per matching registration");
    let mut k = 0;
    while k < ka
    {
        match &captured[k]
        {
            ReactionCommand::BroadcastEvent{ data_entity, reactor } =>
            {
                assert!(*reactor == SystemCommand(ent(ids[k] as u32)), "listener order = registration order");
                assert!(*data_entity == ent(0), "all reactions share the data entity");
            }
            _ => panic!("wrong reaction kind"),
        }
        k += 1;
    }
    if ka > 0
    {
        let d = ent(0);
        assert!(crate::react::commands::verif_h::counter_value(world.get::<DataEntityCounter>(d).unwrap()) == ka, "reader count = number of queued reactions");
        assert!(crate::react::event_readers::verif_h::broadcast_payload(world.get::<BroadcastEventData<EvA>>(d).unwrap()).0 == payload, "payload stored on the data entity");
    }
    else { assert!(world.m_queued() == 0 && world.m_nslots == 0, "no listener: nothing queued, no data entity"); }
    std::mem::forget(captured); std::mem::forget(world); std::mem::forget(cache);
}
#[kani::proof] #[kani::unwind(5)] fn d_2_1() { sched_direct(2, 1) }
#[kani::proof] #[kani::unwind(5)] fn d_3_2() { sched_direct(3, 2) }
#[kani::proof] #[kani::unwind(5)] fn d_0_2() { sched_direct(0, 2) }
