// K2 harnesses over the real src/react/react_cache.rs (child module: private items visible).
//
// Style (DESIGN.md 2.3, k2 recipe): the pre-state (registration tables, the target's EntityReactors, the world)
// is written DIRECTLY into the real structs with a concrete shape and symbolic contents (reactor ids, payloads,
// liveness); then exactly ONE real function is called; the `ReactionCommand`s it queues are captured typed and
// compared with a shadow model.  One query per shape: the set of shapes is the stated bound.
use bevy::ecs::system::{Res, ResMut};
use bevy::world::{CommandQueue, CmdMode};
use smallvec::SmallVec;

pub struct EvA(pub u8);
pub struct EvB(pub u8);
pub struct CoA(pub u8);
impl ReactComponent for CoA {}
pub struct CoB(pub u8);
impl ReactComponent for CoB {}
pub struct RsA(pub u8);
impl ReactResource for RsA {}
pub struct RsB(pub u8);
impl ReactResource for RsB {}

pub const NSYS: u8 = 4;
pub fn sysc(i: u8) -> SystemCommand { SystemCommand(ent(10 + i as u32)) }
pub fn persistent(i: u8) -> ReactorHandle { ReactorHandle::Persistent(sysc(i)) }

/// a list of `k` handles with symbolic reactor ids (recorded in `ids[off..off+k]`)
pub fn handle_list(k: usize, ids: &mut [u8; 8], off: usize) -> Vec<ReactorHandle>
{
    let mut v: Vec<ReactorHandle> = Vec::with_capacity(4);
    let mut i = 0;
    while i < k { let id = any_below(NSYS); ids[off + i] = id; v.push(persistent(id)); i += 1; }
    v
}

/// writes `entries` into a model map directly (no lookups): keys must be distinct
pub fn put2<K: Eq, V>(map: &mut bevy::utils::HashMap<K, V>, a: Option<(K, V)>, b: Option<(K, V)>)
{
    let mut n = 0;
    if let Some(e) = a { unsafe { core::ptr::write(&mut map.m_entries[n], Some(e)); } n += 1; }
    if let Some(e) = b { unsafe { core::ptr::write(&mut map.m_entries[n], Some(e)); } n += 1; }
    map.m_len = n;
}

fn opt_list<K>(key: K, k: usize, ids: &mut [u8; 8], off: usize) -> Option<(K, Vec<ReactorHandle>)>
{
    if k == 0 { None } else { Some((key, handle_list(k, ids, off))) }
}

/// an EntityReactors table with the given concrete reaction types and symbolic reactor ids (`ids[off..]`)
pub fn entity_table(rtypes: &[EntityReactionType], ids: &mut [u8; 8], off: usize) -> EntityReactors
{
    let mut t = EntityReactors::default();
    let mut i = 0;
    while i < rtypes.len()
    {
        let id = any_below(NSYS);
        ids[off + i] = id;
        t.insert(rtypes[i], persistent(id));
        i += 1;
    }
    t
}

fn capture_start(world: &mut World, buf: &mut Vec<ReactionCommand>)
{
    world.m_capture(buf);
    world.m_set_cmd_mode(CmdMode::Immediate);
}

//-------------------------------------------------------------------------------------------------------------------
// broadcast (C01, C05)
//-------------------------------------------------------------------------------------------------------------------

fn broadcast_dispatch(ka: usize, kb: usize)
{
    let mut world = World::new();
    let mut cache = ReactCache::default();
    let mut ids = [0u8; 8];
    let a = opt_list(TypeId::of::<EvA>(), ka, &mut ids, 0);
    let b = opt_list(TypeId::of::<EvB>(), kb, &mut ids, 4);
    put2(&mut cache.broadcast_reactors, a, b);
    let mut captured: Vec<ReactionCommand> = Vec::with_capacity(4);
    capture_start(&mut world, &mut captured);
    let wp = &mut world as *mut World;

    let payload: u8 = kani::any();
    ReactCache::schedule_broadcast_reaction::<EvA>(In(EvA(payload)), Res::m_new(&cache), cmds(wp));

    assert!(captured.len() == ka, "C01: exactly one reaction per registration of this event type, none for other types");
    let mut k = 0;
    while k < ka
    {
        match &captured[k]
        {
            ReactionCommand::BroadcastEvent{ data_entity, reactor } =>
            {
                assert!(*reactor == sysc(ids[k]), "C01: listeners are scheduled in registration order, each its own reactor");
                assert!(*data_entity == ent(0), "C05: all reactions of one event share one data entity");
            }
            _ => panic!("C01: a broadcast schedules BroadcastEvent reactions only"),
        }
        k += 1;
    }
    if ka > 0
    {
        assert!(world.m_queued() == ka + 1, "C01: nothing else is queued (one spawn + one reaction per listener)");
        let d = ent(0);
        assert!(crate::react::commands::verif_h::counter_value(world.get::<DataEntityCounter>(d).unwrap()) == ka,
            "C05: reader count = number of queued reactions");
        assert!(crate::react::event_readers::verif_h::broadcast_payload(world.get::<BroadcastEventData<EvA>>(d).unwrap()).0 == payload,
            "C03: the payload stored for the readers is the event's own");
    }
    else
    {
        assert!(world.m_queued() == 0 && world.m_nslots == 0, "C05: no listener: nothing queued, no data entity, payload dropped at once");
    }
    kani::cover!(true, "reached the end");
    std::mem::forget(captured); std::mem::forget(world); std::mem::forget(cache);
}
#[kani::proof]
#[kani::stub(core::any::TypeId::of, crate::vh::stub_typeid_of)]
#[kani::stub(<core::any::TypeId as crate::vh::PEq>::eq, crate::vh::stub_typeid_eq)]
#[kani::unwind(4)] fn rc_broadcast_2_1() { broadcast_dispatch(2, 1) }
#[kani::proof]
#[kani::stub(core::any::TypeId::of, crate::vh::stub_typeid_of)]
#[kani::stub(<core::any::TypeId as crate::vh::PEq>::eq, crate::vh::stub_typeid_eq)]
#[kani::unwind(4)] fn rc_broadcast_0_2() { broadcast_dispatch(0, 2) }
#[kani::proof]
#[kani::stub(core::any::TypeId::of, crate::vh::stub_typeid_of)]
#[kani::stub(<core::any::TypeId as crate::vh::PEq>::eq, crate::vh::stub_typeid_eq)]
#[kani::unwind(4)] fn rc_broadcast_3_2() { broadcast_dispatch(3, 2) }
#[kani::proof]
#[kani::stub(core::any::TypeId::of, crate::vh::stub_typeid_of)]
#[kani::stub(<core::any::TypeId as crate::vh::PEq>::eq, crate::vh::stub_typeid_eq)]
#[kani::unwind(4)] fn rc_broadcast_1_0() { broadcast_dispatch(1, 0) }
#[kani::proof]
#[kani::stub(core::any::TypeId::of, crate::vh::stub_typeid_of)]
#[kani::stub(<core::any::TypeId as crate::vh::PEq>::eq, crate::vh::stub_typeid_eq)]
#[kani::unwind(4)] fn rc_broadcast_0_0() { broadcast_dispatch(0, 0) }
#[kani::proof]
#[kani::stub(core::any::TypeId::of, crate::vh::stub_typeid_of)]
#[kani::stub(<core::any::TypeId as crate::vh::PEq>::eq, crate::vh::stub_typeid_eq)]
#[kani::unwind(4)]
fn rc_broadcast_witness() { broadcast_dispatch(2, 1); assert!(false, "witness: end of harness reachable"); }

//-------------------------------------------------------------------------------------------------------------------
// resource mutation (C01)
//-------------------------------------------------------------------------------------------------------------------

fn resource_dispatch(ka: usize, kb: usize)
{
    let mut world = World::new();
    let mut cache = ReactCache::default();
    let mut ids = [0u8; 8];
    let a = opt_list(TypeId::of::<RsA>(), ka, &mut ids, 0);
    let b = opt_list(TypeId::of::<RsB>(), kb, &mut ids, 4);
    put2(&mut cache.resource_reactors, a, b);
    // a broadcast listener on the "same" position must not be confused with a resource listener
    let c = opt_list(TypeId::of::<RsA>(), 1, &mut ids, 7);
    put2(&mut cache.broadcast_reactors, c, None);
    let mut captured: Vec<ReactionCommand> = Vec::with_capacity(4);
    capture_start(&mut world, &mut captured);
    let wp = &mut world as *mut World;

    ReactCache::schedule_resource_mutation_reaction::<RsA>(Res::m_new(&cache), cmds(wp));

    assert!(captured.len() == ka, "C01: one reaction per registration of this resource type");
    assert!(world.m_queued() == ka, "C01: nothing else is queued");
    let mut k = 0;
    while k < ka
    {
        match &captured[k]
        {
            ReactionCommand::Resource{ reactor } => assert!(*reactor == sysc(ids[k]), "C01: registration order, right reactor"),
            _ => panic!("C01: a resource mutation schedules Resource reactions only"),
        }
        k += 1;
    }
    kani::cover!(true, "reached the end");
    std::mem::forget(captured); std::mem::forget(world); std::mem::forget(cache);
}
#[kani::proof]
#[kani::stub(core::any::TypeId::of, crate::vh::stub_typeid_of)]
#[kani::stub(<core::any::TypeId as crate::vh::PEq>::eq, crate::vh::stub_typeid_eq)]
#[kani::unwind(4)] fn rc_resource_2_1() { resource_dispatch(2, 1) }
#[kani::proof]
#[kani::stub(core::any::TypeId::of, crate::vh::stub_typeid_of)]
#[kani::stub(<core::any::TypeId as crate::vh::PEq>::eq, crate::vh::stub_typeid_eq)]
#[kani::unwind(4)] fn rc_resource_0_1() { resource_dispatch(0, 1) }
#[kani::proof]
#[kani::stub(core::any::TypeId::of, crate::vh::stub_typeid_of)]
#[kani::stub(<core::any::TypeId as crate::vh::PEq>::eq, crate::vh::stub_typeid_eq)]
#[kani::unwind(4)] fn rc_resource_3_0() { resource_dispatch(3, 0) }

//-------------------------------------------------------------------------------------------------------------------
// entity event (C01, C05, C18)
//-------------------------------------------------------------------------------------------------------------------

/// `ne` entity-scoped listeners for EvA on the target (interleaved with a listener for EvB and a mutation reactor),
/// `ka` type-wide listeners for EvA, `kb` for EvB; the target is alive or (symbolically) despawned.
fn entity_event_dispatch(ne: usize, ka: usize, kb: usize, may_be_dead: bool) { entity_event_dispatch_x(ne, ka, kb, may_be_dead, true, true) }
fn entity_event_dispatch_x(ne: usize, ka: usize, kb: usize, may_be_dead: bool, with_other: bool, with_table: bool)
{
    let mut world = World::new();
    let mut cache = ReactCache::default();
    let mut ids = [0u8; 8];
    let ev_a = EntityReactionType::Event(TypeId::of::<EvA>());
    let ev_b = EntityReactionType::Event(TypeId::of::<EvB>());
    let mu_a = EntityReactionType::Mutation(TypeId::of::<EvA>());
    let table = match ne
    {
        0 => entity_table(&[ev_b, mu_a], &mut ids, 0),
        1 => entity_table(&[ev_b, ev_a, mu_a], &mut ids, 0),
        _ => entity_table(&[ev_a, ev_b, mu_a, ev_a], &mut ids, 0),
    };
    // positions of the EvA entries in the entity table
    let epos: [usize; 2] = match ne { 0 => [9, 9], 1 => [1, 9], _ => [0, 3] };
    let target = if with_table { world.spawn(table).id() } else { std::mem::forget(table); world.spawn_empty().id() };
    if with_other { let _ = world.spawn(entity_table(&[ev_a], &mut ids, 7)).id(); }     // another entity's listener must not run
    let a = opt_list(TypeId::of::<EvA>(), ka, &mut ids, 4);
    let b = opt_list(TypeId::of::<EvB>(), kb, &mut ids, 6);
    put2(&mut cache.any_entity_event_reactors, a, b);

    let dead: bool = if may_be_dead { kani::any() } else { false };
    if dead
    {
        world.m_drop_table::<(EntityReactors,)>();
        world.despawn(target);
    }
    let mut captured: Vec<ReactionCommand> = Vec::with_capacity(6);
    capture_start(&mut world, &mut captured);
    let wp = &mut world as *mut World;

    let payload: u8 = kani::any();
    ReactCache::schedule_entity_event_reaction::<EvA>(In((target, EvA(payload))), cmds(wp), Res::m_new(&cache), qry(wp));

    // C18 / REACT.md ("If the target entity is despawned, then entity events targeting it will be dropped"):
    // nothing at all is scheduled on behalf of a dead target - neither its own listeners nor type-wide ones
    let ne_eff = if dead { 0 } else { ne };
    let total = if dead { 0 } else { ne + ka };
    assert!(captured.len() == total, "C01: entity-scoped listeners of the target for this event type plus type-wide listeners, nothing else");
    let mut k = 0;
    while k < total
    {
        match &captured[k]
        {
            ReactionCommand::EntityEvent{ target: t, data_entity, reactor } =>
            {
                assert!(*t == target, "C03: every reaction carries the event's target");
                let want = if k < ne_eff { ids[epos[k]] } else { ids[4 + (k - ne_eff)] };
                assert!(*reactor == sysc(want), "C01: entity-scoped listeners first, then type-wide, each in registration order");
                if k > 0 { if let ReactionCommand::EntityEvent{ data_entity: d0, .. } = &captured[0] { assert!(*d0 == *data_entity, "C05: one shared data entity"); } }
            }
            _ => panic!("C01: an entity event schedules EntityEvent reactions only"),
        }
        k += 1;
    }
    if total > 0
    {
        assert!(world.m_queued() == total + 1, "C01: nothing else is queued");
        if let ReactionCommand::EntityEvent{ data_entity, .. } = &captured[0]
        {
            assert!(crate::react::commands::verif_h::counter_value(world.get::<DataEntityCounter>(*data_entity).unwrap()) == total,
                "C05: reader count = number of queued reactions");
            let (t, p) = crate::react::event_readers::verif_h::entity_event_payload(world.get::<EntityEventData<EvA>>(*data_entity).unwrap());
            assert!(t == target && p.0 == payload, "C03: target and payload stored for the readers are the event's own");
        }
    }
    else
    {
        assert!(world.m_queued() == 0, "C05: no listener: nothing queued, payload dropped at once");
    }
    kani::cover!(dead || !may_be_dead, "target despawned before the event is applied");
    kani::cover!(!dead, "target alive");
    std::mem::forget(captured); std::mem::forget(world); std::mem::forget(cache);
}
#[kani::proof]
#[kani::stub(core::any::TypeId::of, crate::vh::stub_typeid_of)]
#[kani::stub(<core::any::TypeId as crate::vh::PEq>::eq, crate::vh::stub_typeid_eq)]
#[kani::unwind(5)] fn rc_entity_event_2_1_1() { entity_event_dispatch(2, 1, 1, false) }
#[kani::proof]
#[kani::stub(core::any::TypeId::of, crate::vh::stub_typeid_of)]
#[kani::stub(<core::any::TypeId as crate::vh::PEq>::eq, crate::vh::stub_typeid_eq)]
#[kani::unwind(5)] fn rc_entity_event_1_0_1() { entity_event_dispatch(1, 0, 1, false) }
#[kani::proof]
#[kani::stub(core::any::TypeId::of, crate::vh::stub_typeid_of)]
#[kani::stub(<core::any::TypeId as crate::vh::PEq>::eq, crate::vh::stub_typeid_eq)]
#[kani::unwind(5)] fn rc_entity_event_0_2_0() { entity_event_dispatch(0, 2, 0, false) }
#[kani::proof]
#[kani::stub(core::any::TypeId::of, crate::vh::stub_typeid_of)]
#[kani::stub(<core::any::TypeId as crate::vh::PEq>::eq, crate::vh::stub_typeid_eq)]
#[kani::unwind(5)] fn rc_entity_event_0_0_1() { entity_event_dispatch(0, 0, 1, false) }
#[kani::proof]
#[kani::stub(core::any::TypeId::of, crate::vh::stub_typeid_of)]
#[kani::stub(<core::any::TypeId as crate::vh::PEq>::eq, crate::vh::stub_typeid_eq)]
#[kani::unwind(5)] fn rc_entity_event_dead_2_0_1() { entity_event_dispatch(2, 0, 1, true) }
#[kani::proof]
#[kani::stub(core::any::TypeId::of, crate::vh::stub_typeid_of)]
#[kani::stub(<core::any::TypeId as crate::vh::PEq>::eq, crate::vh::stub_typeid_eq)]
#[kani::unwind(5)] fn rc_entity_event_dead_1_1_0() { entity_event_dispatch(1, 1, 0, true) }

//-------------------------------------------------------------------------------------------------------------------
// insertion / mutation (C01)
//-------------------------------------------------------------------------------------------------------------------

/// `which`: 0 = insertion, 1 = mutation.  The target carries entity-scoped reactors of all three component kinds for
/// CoA and CoB; the type-wide table has insertion / mutation / removal lists for CoA and one entry for CoB.
fn component_dispatch(which: u8, ne: usize, ki: usize, km: usize, kr: usize)
{
    let mut world = World::new();
    let mut cache = ReactCache::default();
    let mut ids = [0u8; 8];
    let ins_a = EntityReactionType::Insertion(TypeId::of::<CoA>());
    let mut_a = EntityReactionType::Mutation(TypeId::of::<CoA>());
    let rem_a = EntityReactionType::Removal(TypeId::of::<CoA>());
    let ins_b = EntityReactionType::Insertion(TypeId::of::<CoB>());
    let mut_b = EntityReactionType::Mutation(TypeId::of::<CoB>());
    let wanted = if which == 0 { ins_a } else { mut_a };
    let unwanted = if which == 0 { mut_a } else { ins_a };
    let wanted_b = if which == 0 { ins_b } else { mut_b };
    let table = match ne
    {
        0 => entity_table(&[unwanted, rem_a, wanted_b], &mut ids, 0),
        1 => entity_table(&[unwanted, wanted, wanted_b], &mut ids, 0),
        _ => entity_table(&[wanted, wanted_b, unwanted, wanted], &mut ids, 0),
    };
    let epos: [usize; 2] = match ne { 0 => [9, 9], 1 => [1, 9], _ => [0, 3] };
    let target = world.spawn(table).id();
    let cr_a = ComponentReactors{
        insertion_callbacks: handle_list(ki, &mut ids, 4),
        mutation_callbacks: handle_list(km, &mut ids, 4 + ki),
        removal_callbacks: handle_list(kr, &mut ids, 4 + ki + km),
    };
    let cr_b = ComponentReactors{
        insertion_callbacks: handle_list(1, &mut ids, 7),
        mutation_callbacks: handle_list(1, &mut ids, 7),
        removal_callbacks: Vec::new(),
    };
    put2(&mut cache.component_reactors, Some((TypeId::of::<CoB>(), cr_b)), Some((TypeId::of::<CoA>(), cr_a)));
    let mut captured: Vec<ReactionCommand> = Vec::with_capacity(6);
    capture_start(&mut world, &mut captured);
    let wp = &mut world as *mut World;

    if which == 0
    {
        ReactCache::schedule_insertion_reaction::<CoA>(In(target), ResMut::m_new(&mut cache), cmds(wp), qry(wp));
    }
    else
    {
        ReactCache::schedule_mutation_reaction::<CoA>(In(target), ResMut::m_new(&mut cache), cmds(wp), qry(wp));
    }

    let kw = if which == 0 { ki } else { km };
    let woff = if which == 0 { 4 } else { 4 + ki };
    let total = ne + kw;
    assert!(captured.len() == total, "C01: entity-scoped reactors of this kind and component on the target plus type-wide ones of this kind, nothing else");
    assert!(world.m_queued() == total, "C01: nothing else is queued");
    let mut k = 0;
    while k < total
    {
        match &captured[k]
        {
            ReactionCommand::EntityReaction{ reaction_source, reaction_type, reactor } =>
            {
                assert!(*reaction_source == target, "C03: the reaction names the entity the component is on");
                assert!(*reaction_type == wanted, "C03: the reaction names the right kind and component type");
                let want = if k < ne { ids[epos[k]] } else { ids[woff + (k - ne)] };
                assert!(*reactor == sysc(want), "C01: entity-scoped first, then type-wide, each in registration order; the right list (insertion vs mutation vs removal)");
            }
            _ => panic!("C01: a component insertion/mutation schedules EntityReaction reactions only"),
        }
        k += 1;
    }
    assert!(cache.reaction_commands_buffer.len() == 0, "C11: the cached reaction buffer is left empty");
    kani::cover!(true, "reached the end");
    std::mem::forget(captured); std::mem::forget(world); std::mem::forget(cache);
}
#[kani::proof]
#[kani::stub(core::any::TypeId::of, crate::vh::stub_typeid_of)]
#[kani::stub(<core::any::TypeId as crate::vh::PEq>::eq, crate::vh::stub_typeid_eq)]
#[kani::unwind(5)] fn rc_insertion_2_1_1_1() { component_dispatch(0, 2, 1, 1, 1) }
#[kani::proof]
#[kani::stub(core::any::TypeId::of, crate::vh::stub_typeid_of)]
#[kani::stub(<core::any::TypeId as crate::vh::PEq>::eq, crate::vh::stub_typeid_eq)]
#[kani::unwind(5)] fn rc_mutation_2_1_1_1() { component_dispatch(1, 2, 1, 1, 1) }
#[kani::proof]
#[kani::stub(core::any::TypeId::of, crate::vh::stub_typeid_of)]
#[kani::stub(<core::any::TypeId as crate::vh::PEq>::eq, crate::vh::stub_typeid_eq)]
#[kani::unwind(5)] fn rc_insertion_1_2_0_1() { component_dispatch(0, 1, 2, 0, 1) }
#[kani::proof]
#[kani::stub(core::any::TypeId::of, crate::vh::stub_typeid_of)]
#[kani::stub(<core::any::TypeId as crate::vh::PEq>::eq, crate::vh::stub_typeid_eq)]
#[kani::unwind(5)] fn rc_mutation_0_0_2_1() { component_dispatch(1, 0, 0, 2, 1) }
#[kani::proof]
#[kani::stub(core::any::TypeId::of, crate::vh::stub_typeid_of)]
#[kani::stub(<core::any::TypeId as crate::vh::PEq>::eq, crate::vh::stub_typeid_eq)]
#[kani::unwind(5)] fn rc_insertion_0_0_1_1() { component_dispatch(0, 0, 0, 1, 1) }


//-------------------------------------------------------------------------------------------------------------------
// revocation kernels (C06, C07, C01)
//-------------------------------------------------------------------------------------------------------------------

/// shadow of "remove the first entry of `id`": returns the expected list and its length
fn shadow_remove_first(ids: &[u8; 8], off: usize, k: usize, id: u8, out: &mut [u8; 4]) -> usize
{
    let mut n = 0; let mut removed = false; let mut i = 0;
    while i < k
    {
        if !removed && ids[off + i] == id { removed = true; } else { out[n] = ids[off + i]; n += 1; }
        i += 1;
    }
    n
}

fn list_is(list: &Vec<ReactorHandle>, want: &[u8; 4], n: usize) -> bool
{
    if list.len() != n { return false; }
    let mut i = 0;
    while i < n { if list[i].sys_command() != sysc(want[i]) { return false; } i += 1; }
    true
}

fn count_id(ids: &[u8; 8], off: usize, k: usize, id: u8) -> usize
{
    let mut c = 0; let mut i = 0;
    while i < k { if ids[off + i] == id { c += 1; } i += 1; }
    c
}

/// which: 0 broadcast, 1 resource, 2 any-entity-event.  Table: key A with `ka` entries, key B with `kb`.
fn revoke_list_kernel(which: u8, ka: usize, kb: usize, absent_key: bool)
{
    let mut cache = ReactCache::default();
    let mut ids = [0u8; 8];
    let a = opt_list(TypeId::of::<EvA>(), ka, &mut ids, 0);
    let b = opt_list(TypeId::of::<EvB>(), kb, &mut ids, 4);
    match which
    {
        0 => put2(&mut cache.broadcast_reactors, a, b),
        1 => put2(&mut cache.resource_reactors, a, b),
        _ => put2(&mut cache.any_entity_event_reactors, a, b),
    }
    let target = any_below(NSYS);
    let key = if absent_key { TypeId::of::<CoA>() } else { TypeId::of::<EvA>() };

    match which
    {
        0 => cache.revoke_broadcast_reactor(key, sysc(target)),
        1 => cache.revoke_resource_mutation_reactor(key, sysc(target)),
        _ => cache.revoke_any_entity_event_reactor(key, sysc(target)),
    }

    let table = match which { 0 => &cache.broadcast_reactors, 1 => &cache.resource_reactors, _ => &cache.any_entity_event_reactors };
    let mut want = [0u8; 4];
    let n = if absent_key { let mut i = 0; while i < ka { want[i] = ids[i]; i += 1; } ka } else { shadow_remove_first(&ids, 0, ka, target, &mut want) };
    match table.get(&TypeId::of::<EvA>())
    {
        Some(list) => { assert!(n > 0, "C06: a key whose list became empty is dropped"); assert!(list_is(list, &want, n), "C06: exactly the first entry of the revoked reactor is removed; neighbours keep their order"); }
        None => assert!(n == 0, "C06: revoking must not delete registrations of other reactors under the key"),
    }
    match table.get(&TypeId::of::<EvB>())
    {
        Some(list) => assert!(kb > 0 && list.len() == kb && list[0].sys_command() == sysc(ids[4]), "C06: other keys are untouched"),
        None => assert!(kb == 0, "C06: other keys are untouched"),
    }
    kani::cover!(absent_key || n < ka, "an entry was revoked (present key)");
    kani::cover!(n == ka, "absent reactor or key: no-op");
    std::mem::forget(cache);
}
#[kani::proof]
#[kani::stub(core::any::TypeId::of, crate::vh::stub_typeid_of)]
#[kani::stub(<core::any::TypeId as crate::vh::PEq>::eq, crate::vh::stub_typeid_eq)]
#[kani::unwind(4)] fn rc_revoke_broadcast_3_1() { revoke_list_kernel(0, 3, 1, false) }
#[kani::proof]
#[kani::stub(core::any::TypeId::of, crate::vh::stub_typeid_of)]
#[kani::stub(<core::any::TypeId as crate::vh::PEq>::eq, crate::vh::stub_typeid_eq)]
#[kani::unwind(3)] fn rc_revoke_broadcast_2_1() { revoke_list_kernel(0, 2, 1, false) }
#[kani::proof]
#[kani::stub(core::any::TypeId::of, crate::vh::stub_typeid_of)]
#[kani::stub(<core::any::TypeId as crate::vh::PEq>::eq, crate::vh::stub_typeid_eq)]
#[kani::unwind(3)] fn rc_revoke_resource_2_1() { revoke_list_kernel(1, 2, 1, false) }
#[kani::proof]
#[kani::stub(core::any::TypeId::of, crate::vh::stub_typeid_of)]
#[kani::stub(<core::any::TypeId as crate::vh::PEq>::eq, crate::vh::stub_typeid_eq)]
#[kani::unwind(3)] fn rc_revoke_any_event_2_1() { revoke_list_kernel(2, 2, 1, false) }
#[kani::proof]
#[kani::stub(core::any::TypeId::of, crate::vh::stub_typeid_of)]
#[kani::stub(<core::any::TypeId as crate::vh::PEq>::eq, crate::vh::stub_typeid_eq)]
#[kani::unwind(3)] fn rc_revoke_broadcast_absent_key() { revoke_list_kernel(0, 2, 0, true) }

/// Completeness as the property words it: after the revoke no entry of the reactor remains under the key.
/// With duplicate registrations of one trigger by one reactor this FAILS (finding F2): the type-wide tables remove
/// only the first match.
fn revoke_complete_kernel(ka: usize)
{
    let mut cache = ReactCache::default();
    let mut ids = [0u8; 8];
    let a = opt_list(TypeId::of::<EvA>(), ka, &mut ids, 0);
    put2(&mut cache.broadcast_reactors, a, None);
    let target = any_below(NSYS);
    let before = count_id(&ids, 0, ka, target);
    cache.revoke_broadcast_reactor(TypeId::of::<EvA>(), sysc(target));
    let mut remaining = 0;
    if let Some(list) = cache.broadcast_reactors.get(&TypeId::of::<EvA>())
    {
        let mut i = 0;
        while i < list.len() { if list[i].sys_command() == sysc(target) { remaining += 1; } i += 1; }
    }
    if before <= 1 { assert!(remaining == 0, "C06: after a revoke no registration of the reactor remains under the key"); }
    else { assert!(remaining == 0, "C06/F2: a reactor registered twice for one type-wide trigger is still registered after one revoke"); }
    kani::cover!(before == 1, "single registration");
    std::mem::forget(cache);
}
#[kani::proof]
#[kani::stub(core::any::TypeId::of, crate::vh::stub_typeid_of)]
#[kani::stub(<core::any::TypeId as crate::vh::PEq>::eq, crate::vh::stub_typeid_eq)]
#[kani::unwind(4)] fn rc_revoke_complete_3() { revoke_complete_kernel(3) }

/// component reactors: three sibling lists under one key; the map entry must survive while any list is non-empty
fn revoke_component_kernel(ki: usize, km: usize, kr: usize)
{
    let mut cache = ReactCache::default();
    let mut ids = [0u8; 8];
    let cr_a = ComponentReactors{
        insertion_callbacks: handle_list(ki, &mut ids, 0),
        mutation_callbacks: handle_list(km, &mut ids, 2),
        removal_callbacks: handle_list(kr, &mut ids, 4),
    };
    let cr_b = ComponentReactors{ insertion_callbacks: handle_list(1, &mut ids, 6), mutation_callbacks: Vec::new(), removal_callbacks: Vec::new() };
    put2(&mut cache.component_reactors, Some((TypeId::of::<CoA>(), cr_a)), Some((TypeId::of::<CoB>(), cr_b)));
    let target = any_below(NSYS);
    let kind = any_below(3);
    let rtype = match kind { 0 => EntityReactionType::Insertion(TypeId::of::<CoA>()), 1 => EntityReactionType::Mutation(TypeId::of::<CoA>()), _ => EntityReactionType::Removal(TypeId::of::<CoA>()) };

    cache.revoke_component_reactor(rtype, sysc(target));

    let mut wi = [0u8; 4]; let mut wm = [0u8; 4]; let mut wr = [0u8; 4];
    let ni = if kind == 0 { shadow_remove_first(&ids, 0, ki, target, &mut wi) } else { let mut i = 0; while i < ki { wi[i] = ids[i]; i += 1; } ki };
    let nm = if kind == 1 { shadow_remove_first(&ids, 2, km, target, &mut wm) } else { let mut i = 0; while i < km { wm[i] = ids[2 + i]; i += 1; } km };
    let nr = if kind == 2 { shadow_remove_first(&ids, 4, kr, target, &mut wr) } else { let mut i = 0; while i < kr { wr[i] = ids[4 + i]; i += 1; } kr };
    match cache.component_reactors.get(&TypeId::of::<CoA>())
    {
        Some(cr) =>
        {
            assert!(ni + nm + nr > 0, "C06: an entry whose three lists are empty is dropped");
            assert!(list_is(&cr.insertion_callbacks, &wi, ni), "C06: insertion list: only the addressed list loses (at most) the revoked reactor's first entry");
            assert!(list_is(&cr.mutation_callbacks, &wm, nm), "C06: mutation list: only the addressed list loses (at most) the revoked reactor's first entry");
            assert!(list_is(&cr.removal_callbacks, &wr, nr), "C06: removal list: only the addressed list loses (at most) the revoked reactor's first entry");
        }
        None => assert!(ni + nm + nr == 0, "C06/C01: revoking one kind must not delete the component's other reactor lists"),
    }
    match cache.component_reactors.get(&TypeId::of::<CoB>())
    {
        Some(cr) => assert!(cr.insertion_callbacks.len() == 1 && cr.removal_callbacks.len() == 0 && cr.mutation_callbacks.len() == 0, "C06: other components untouched"),
        None => panic!("C06: other components untouched"),
    }
    kani::cover!(!(ki == 1 && km + kr > 0) || (kind == 0 && ni == 0), "last insertion reactor revoked while sibling lists are non-empty (where the shape allows it)");
    kani::cover!(ki + km + kr != 1 || ni + nm + nr == 0, "entry emptied completely (where the shape allows it)");
    std::mem::forget(cache);
}
#[kani::proof]
#[kani::stub(core::any::TypeId::of, crate::vh::stub_typeid_of)]
#[kani::stub(<core::any::TypeId as crate::vh::PEq>::eq, crate::vh::stub_typeid_eq)]
#[kani::unwind(3)] fn rc_revoke_component_1_1_1() { revoke_component_kernel(1, 1, 1) }
#[kani::proof]
#[kani::stub(core::any::TypeId::of, crate::vh::stub_typeid_of)]
#[kani::stub(<core::any::TypeId as crate::vh::PEq>::eq, crate::vh::stub_typeid_eq)]
#[kani::unwind(3)] fn rc_revoke_component_1_0_0() { revoke_component_kernel(1, 0, 0) }
#[kani::proof]
#[kani::stub(core::any::TypeId::of, crate::vh::stub_typeid_of)]
#[kani::stub(<core::any::TypeId as crate::vh::PEq>::eq, crate::vh::stub_typeid_eq)]
#[kani::unwind(3)] fn rc_revoke_component_1_0_1() { revoke_component_kernel(1, 0, 1) }
#[kani::proof]
#[kani::stub(core::any::TypeId::of, crate::vh::stub_typeid_of)]
#[kani::stub(<core::any::TypeId as crate::vh::PEq>::eq, crate::vh::stub_typeid_eq)]
#[kani::unwind(3)] fn rc_revoke_component_0_1_1() { revoke_component_kernel(0, 1, 1) }

/// despawn reactors are keyed by entity
fn revoke_despawn_kernel(ka: usize, kb: usize)
{
    let mut cache = ReactCache::default();
    let mut ids = [0u8; 8];
    let ea = ent(1); let eb = ent(2);
    let a = opt_list(ea, ka, &mut ids, 0);
    let b = opt_list(eb, kb, &mut ids, 4);
    put2(&mut cache.despawn_reactors, a, b);
    let target = any_below(NSYS);
    let which: u8 = any_below(3);
    let key = match which { 0 => ea, 1 => eb, _ => Entity::m_new(1, 2) };   // a stale id of ea's index must not alias
    cache.revoke_despawn_reactor(key, sysc(target));
    let mut wa = [0u8; 4]; let mut wb = [0u8; 4];
    let na = if which == 0 { shadow_remove_first(&ids, 0, ka, target, &mut wa) } else { let mut i = 0; while i < ka { wa[i] = ids[i]; i += 1; } ka };
    let nb = if which == 1 { shadow_remove_first(&ids, 4, kb, target, &mut wb) } else { let mut i = 0; while i < kb { wb[i] = ids[4 + i]; i += 1; } kb };
    match cache.despawn_reactors.get(&ea) { Some(l) => assert!(na > 0 && list_is(l, &wa, na), "C06: despawn list of the named entity"), None => assert!(na == 0, "C06: despawn list of the named entity") }
    match cache.despawn_reactors.get(&eb) { Some(l) => assert!(nb > 0 && list_is(l, &wb, nb), "C06: despawn lists of other entities untouched"), None => assert!(nb == 0, "C06: despawn lists of other entities untouched") }
    kani::cover!(which == 2, "stale id");
    std::mem::forget(cache);
}
#[kani::proof]
#[kani::stub(core::any::TypeId::of, crate::vh::stub_typeid_of)]
#[kani::stub(<core::any::TypeId as crate::vh::PEq>::eq, crate::vh::stub_typeid_eq)]
#[kani::unwind(3)] fn rc_revoke_despawn_2_1() { revoke_despawn_kernel(2, 1) }

//-------------------------------------------------------------------------------------------------------------------
// introspection for harnesses of sibling modules
//-------------------------------------------------------------------------------------------------------------------
pub fn despawn_entries(cache: &ReactCache, e: Entity) -> usize { cache.despawn_reactors.get(&e).map(|l| l.len()).unwrap_or(0) }
pub fn pending_despawn_reports(cache: &ReactCache) -> usize { cache.despawn_receiver.len() }
pub fn broadcast_entries<E: 'static>(cache: &ReactCache) -> usize { cache.broadcast_reactors.get(&TypeId::of::<E>()).map(|l| l.len()).unwrap_or(0) }
pub fn broadcast_first<E: 'static>(cache: &ReactCache) -> Option<SystemCommand> { cache.broadcast_reactors.get(&TypeId::of::<E>()).and_then(|l| l.first().map(|h| h.sys_command())) }
pub fn put_broadcast<E: 'static>(cache: &mut ReactCache, a: ReactorHandle, b: ReactorHandle)
{
    let mut v: Vec<ReactorHandle> = Vec::with_capacity(4);
    v.push(a); v.push(b);
    put2(&mut cache.broadcast_reactors, Some((TypeId::of::<E>(), v)), None);
}

/// C08 / C07: `schedule_despawn_reactions` turns each reported entity into one Despawn reaction per stored handle,
/// MOVING the handle into the reaction (the map entry is consumed, so a repeated report yields nothing).
fn rc_despawn_dispatch_k(twice: bool)
{
    let mut world = World::new();
    let mut cache = ReactCache::default();
    let mut ids = [0u8; 8];
    let ea = ent(1); let eb = ent(2);
    let a = opt_list(ea, 1, &mut ids, 0);
    let b = opt_list(eb, 1, &mut ids, 4);
    put2(&mut cache.despawn_reactors, a, b);
    let sender = cache.despawn_sender();
    let _ = sender.send(ea);
    if twice { let _ = sender.send(ea); }
    let _ = sender.send(ent(3));                 // an entity nobody watches
    let mut captured: Vec<ReactionCommand> = Vec::with_capacity(4);
    capture_start(&mut world, &mut captured);

    cache.schedule_despawn_reactions(&mut world);

    assert!(captured.len() == 1, "C08: one reaction per reactor watching the despawned entity, at most once per entity");
    let mut k = 0;
    while k < 1
    {
        match &captured[k]
        {
            ReactionCommand::Despawn{ reaction_source, reactor, handle } =>
            {
                assert!(*reaction_source == ea, "C03: the reaction names the despawned entity");
                assert!(*reactor == sysc(ids[k]) && handle.sys_command() == sysc(ids[k]), "C08: registration order; the handle travels with its reaction");
            }
            _ => panic!("C08: despawns schedule Despawn reactions only"),
        }
        k += 1;
    }
    assert!(cache.despawn_reactors.get(&ea).is_none(), "C08: the entry is consumed");
    assert!(cache.despawn_reactors.get(&eb).map(|l| l.len()) == Some(1), "C08: entities that were not reported keep their reactors");
    assert!(cache.despawn_receiver.len() == 0, "C11: the report channel is drained");
    kani::cover!(true, "end reached");
    std::mem::forget(captured); std::mem::forget(world); std::mem::forget(cache);
}
#[kani::proof]
#[kani::stub(core::any::TypeId::of, crate::vh::stub_typeid_of)]
#[kani::stub(<core::any::TypeId as crate::vh::PEq>::eq, crate::vh::stub_typeid_eq)]
#[kani::unwind(4)]
fn rc_despawn_dispatch_once() { rc_despawn_dispatch_k(false) }
#[kani::proof]
#[kani::stub(core::any::TypeId::of, crate::vh::stub_typeid_of)]
#[kani::stub(<core::any::TypeId as crate::vh::PEq>::eq, crate::vh::stub_typeid_eq)]
#[kani::unwind(4)]
fn rc_despawn_dispatch_reported_twice() { rc_despawn_dispatch_k(true) }

//-------------------------------------------------------------------------------------------------------------------
// removal polling (C08)
//-------------------------------------------------------------------------------------------------------------------

/// C08: one poll turns EVERY removal the environment reports for a tracked component into the reactions of that
/// entity (entity-scoped removal reactors of that component, then the type-wide removal list), in report order;
/// nothing for entities that were not reported; the cached buffers are handed back empty.
fn removal_poll_kernel(type_wide: usize)
{
    let mut world = World::new();
    let mut cache = ReactCache::default();
    cache.track_removals::<CoA>();
    let mut ids = [0u8; 8];
    let rem_a = EntityReactionType::Removal(TypeId::of::<CoA>());
    let mut_a = EntityReactionType::Mutation(TypeId::of::<CoA>());
    let e1 = world.spawn(entity_table(&[rem_a], &mut ids, 0)).id();
    let e2 = world.spawn(entity_table(&[mut_a, rem_a], &mut ids, 1)).id();
    let e3 = world.spawn(entity_table(&[rem_a], &mut ids, 3)).id();      // not reported: must not react
    if type_wide > 0
    {
        let cr = ComponentReactors{ insertion_callbacks: handle_list(1, &mut ids, 7), mutation_callbacks: Vec::new(), removal_callbacks: handle_list(type_wide, &mut ids, 4) };
        put2(&mut cache.component_reactors, Some((TypeId::of::<CoA>(), cr)), None);
    }
    // the environment reports: React<CoA> removed from e1, then from e2 (E4)
    let key = bevy::model::cell::type_key::<React<CoA>>();
    world.m_push_removed(key, e1);
    world.m_push_removed(key, e2);
    let mut captured: Vec<ReactionCommand> = Vec::with_capacity(6);
    capture_start(&mut world, &mut captured);

    cache.schedule_removal_reactions(&mut world);

    let per = 1 + type_wide;
    assert!(captured.len() == 2 * per, "C08: every reported removal is reacted to: entity-scoped removal reactors plus the type-wide removal list, for EACH reported entity");
    let mut k = 0;
    while k < 2 * per
    {
        let ent_idx = k / per;
        let within = k % per;
        match &captured[k]
        {
            ReactionCommand::EntityReaction{ reaction_source, reaction_type, reactor } =>
            {
                assert!(*reaction_source == if ent_idx == 0 { e1 } else { e2 }, "C08: reactions carry the entity the component was removed from, in report order");
                assert!(*reaction_type == rem_a, "C08: removal reactions of that component");
                let want = if within == 0 { if ent_idx == 0 { ids[0] } else { ids[2] } } else { ids[4 + within - 1] };
                assert!(*reactor == sysc(want), "C08: the entity's own removal reactor first (not its mutation reactor), then the type-wide removal list");
            }
            _ => panic!("C08: removals schedule EntityReaction reactions only"),
        }
        k += 1;
    }
    assert!(cache.reaction_commands_buffer.len() == 0 && cache.removal_buffer.is_some(), "C11: cached buffers are handed back");
    // a second poll sees nothing new (each removal is reported once per reader)
    cache.schedule_removal_reactions(&mut world);
    assert!(captured.len() == 2 * per, "C08: a removal is reacted to exactly once");
    let _ = e3;
    kani::cover!(true, "end reached");
    std::mem::forget(captured); std::mem::forget(world); std::mem::forget(cache);
}
#[kani::proof]
#[kani::stub(core::any::TypeId::of, crate::vh::stub_typeid_of)]
#[kani::stub(<core::any::TypeId as crate::vh::PEq>::eq, crate::vh::stub_typeid_eq)]
#[kani::unwind(4)]
fn rc_removal_poll_entity_scoped_only() { removal_poll_kernel(0) }
#[kani::proof]
#[kani::stub(core::any::TypeId::of, crate::vh::stub_typeid_of)]
#[kani::stub(<core::any::TypeId as crate::vh::PEq>::eq, crate::vh::stub_typeid_eq)]
#[kani::unwind(4)]
fn rc_removal_poll_with_type_wide() { removal_poll_kernel(1) }

/// C08, minimal form: two entities each with one entity-scoped removal reactor and NO type-wide reactor for the
/// component; the environment reports both removals; one poll must react to BOTH.
#[kani::proof]
#[kani::stub(core::any::TypeId::of, crate::vh::stub_typeid_of)]
#[kani::stub(<core::any::TypeId as crate::vh::PEq>::eq, crate::vh::stub_typeid_eq)]
#[kani::unwind(3)]
fn rc_removal_poll_two_entities_minimal()
{
    let mut world = World::new();
    let mut cache = ReactCache::default();
    cache.track_removals::<CoA>();
    cache.removal_buffer = Some(Vec::with_capacity(4));          // the cached buffer of an earlier poll
    cache.reaction_commands_buffer = Vec::with_capacity(4);
    let mut ids = [0u8; 8];
    let rem_a = EntityReactionType::Removal(TypeId::of::<CoA>());
    let e1 = world.spawn(entity_table(&[rem_a], &mut ids, 0)).id();
    let e2 = world.spawn(entity_table(&[rem_a], &mut ids, 1)).id();
    let key = bevy::model::cell::type_key::<React<CoA>>();
    world.m_push_removed(key, e1);
    world.m_push_removed(key, e2);
    let mut captured: Vec<ReactionCommand> = Vec::with_capacity(4);
    capture_start(&mut world, &mut captured);

    cache.schedule_removal_reactions(&mut world);

    assert!(captured.len() == 2, "C08: every reported removal is reacted to, also when the component has no type-wide reactor");
    match (&captured[0], &captured[1])
    {
        (ReactionCommand::EntityReaction{ reaction_source: s0, reaction_type: t0, reactor: r0 },
         ReactionCommand::EntityReaction{ reaction_source: s1, reaction_type: t1, reactor: r1 }) =>
        {
            assert!(*s0 == e1 && *s1 == e2, "C08: each reaction carries the entity the component was removed from");
            assert!(*t0 == rem_a && *t1 == rem_a && *r0 == sysc(ids[0]) && *r1 == sysc(ids[1]), "C08: the entities' own removal reactors");
        }
        _ => panic!("C08: removals schedule EntityReaction reactions only"),
    }
    kani::cover!(true, "end of harness reached");
    std::mem::forget(captured); std::mem::forget(world); std::mem::forget(cache);
}


/// C08: one entity loses the component, gets it back and loses it again between two polls: the environment reports TWO
/// removals of the same entity, and each is reacted to (one run of the entity's removal reactor per removal).
#[kani::proof]
#[kani::stub(core::any::TypeId::of, crate::vh::stub_typeid_of)]
#[kani::stub(<core::any::TypeId as crate::vh::PEq>::eq, crate::vh::stub_typeid_eq)]
#[kani::unwind(3)]
fn rc_removal_poll_same_entity_twice()
{
    let mut world = World::new();
    let mut cache = ReactCache::default();
    cache.track_removals::<CoA>();
    cache.removal_buffer = Some(Vec::with_capacity(4));
    cache.reaction_commands_buffer = Vec::with_capacity(4);
    let mut ids = [0u8; 8];
    let rem_a = EntityReactionType::Removal(TypeId::of::<CoA>());
    let e1 = world.spawn(entity_table(&[rem_a], &mut ids, 0)).id();
    let key = bevy::model::cell::type_key::<React<CoA>>();
    world.m_push_removed(key, e1);
    world.m_push_removed(key, e1);
    let mut captured: Vec<ReactionCommand> = Vec::with_capacity(4);
    capture_start(&mut world, &mut captured);

    cache.schedule_removal_reactions(&mut world);

    assert!(captured.len() == 2, "C08: each removal is reacted to - two removals of one entity between polls are two reactions");
    match (&captured[0], &captured[1])
    {
        (ReactionCommand::EntityReaction{ reaction_source: s0, reactor: r0, .. }, ReactionCommand::EntityReaction{ reaction_source: s1, reactor: r1, .. }) =>
            assert!(*s0 == e1 && *s1 == e1 && *r0 == sysc(ids[0]) && *r1 == sysc(ids[0]), "C08: both carry that entity and its reactor"),
        _ => panic!("C08: removals schedule EntityReaction reactions only"),
    }
    kani::cover!(true, "end of harness reached");
    std::mem::forget(captured); std::mem::forget(world); std::mem::forget(cache);
}

/// C18 / C14: an insertion / mutation trigger applied for an entity that no longer exists (despawned between queueing
/// and applying) schedules nothing - not even the type-wide reactors of that component.
fn component_dispatch_dead_target(which: u8)
{
    let mut world = World::new();
    let mut cache = ReactCache::default();
    let mut ids = [0u8; 8];
    let live = world.spawn_empty().id();
    let gone = Entity::m_new(live.index(), live.generation() + 1);
    let dead: bool = kani::any();
    let target = if dead { gone } else { live };
    let cr_a = ComponentReactors{ insertion_callbacks: handle_list(1, &mut ids, 0), mutation_callbacks: handle_list(1, &mut ids, 1), removal_callbacks: Vec::new() };
    put2(&mut cache.component_reactors, Some((TypeId::of::<CoA>(), cr_a)), None);
    let mut captured: Vec<ReactionCommand> = Vec::with_capacity(4);
    capture_start(&mut world, &mut captured);
    let wp = &mut world as *mut World;
    if which == 0 { ReactCache::schedule_insertion_reaction::<CoA>(In(target), ResMut::m_new(&mut cache), cmds(wp), qry(wp)); }
    else { ReactCache::schedule_mutation_reaction::<CoA>(In(target), ResMut::m_new(&mut cache), cmds(wp), qry(wp)); }
    if dead { assert!(captured.len() == 0 && world.m_queued() == 0, "C18/C14: no reaction is scheduled on behalf of an entity that no longer exists"); }
    else
    {
        assert!(captured.len() == 1, "C01: a live entity without entity-scoped reactors gets exactly the type-wide reactors of that kind");
        if let ReactionCommand::EntityReaction{ reaction_source, reactor, .. } = &captured[0] { assert!(*reaction_source == live && *reactor == sysc(ids[which as usize])); }
    }
    kani::cover!(dead, "target gone");
    kani::cover!(!dead, "target alive");
    std::mem::forget(captured); std::mem::forget(world); std::mem::forget(cache);
}
#[kani::proof]
#[kani::stub(core::any::TypeId::of, crate::vh::stub_typeid_of)]
#[kani::stub(<core::any::TypeId as crate::vh::PEq>::eq, crate::vh::stub_typeid_eq)]
#[kani::unwind(4)]
fn rc_insertion_dead_target() { component_dispatch_dead_target(0) }
#[kani::proof]
#[kani::stub(core::any::TypeId::of, crate::vh::stub_typeid_of)]
#[kani::stub(<core::any::TypeId as crate::vh::PEq>::eq, crate::vh::stub_typeid_eq)]
#[kani::unwind(4)]
fn rc_mutation_dead_target() { component_dispatch_dead_target(1) }

//-------------------------------------------------------------------------------------------------------------------
// registration kernels (C01: one entry per registration, under the right kind and type, nothing else touched)
//-------------------------------------------------------------------------------------------------------------------
fn whole_list_is(list: &Vec<ReactorHandle>, ids: &[u8; 8], off: usize, k: usize, last: Option<u8>) -> bool
{
    let n = k + if last.is_some() { 1 } else { 0 };
    if list.len() != n { return false; }
    let mut ok = true;
    let mut i = 0;
    while i < k { if list[i].sys_command() != sysc(ids[off + i]) { ok = false; } i += 1; }
    if let Some(l) = last { if list[k].sys_command() != sysc(l) { ok = false; } }
    ok
}

/// which: 0 broadcast, 1 resource, 2 any-entity-event.  Pre-state: key A with `ka` entries, key B with `kb`; one
/// registration for A (or for a type that has no key yet) must append exactly one entry at the END of exactly that list.
fn register_list_kernel(which: u8, ka: usize, kb: usize, new_key: bool)
{
    let mut cache = ReactCache::default();
    let mut ids = [0u8; 8];
    let a = opt_list(TypeId::of::<EvA>(), ka, &mut ids, 0);
    let b = opt_list(TypeId::of::<EvB>(), kb, &mut ids, 4);
    match which
    {
        0 => put2(&mut cache.broadcast_reactors, a, b),
        1 => put2(&mut cache.resource_reactors, a, b),
        _ => put2(&mut cache.any_entity_event_reactors, a, b),
    }
    let newcomer = any_below(NSYS);      // may equal an id already registered: registrations are not merged
    match (which, new_key)
    {
        (0, false) => cache.register_broadcast_reactor::<EvA>(persistent(newcomer)),
        (0, true) => cache.register_broadcast_reactor::<CoA>(persistent(newcomer)),
        (1, false) => cache.register_resource_mutation_reactor::<RsKeyA>(persistent(newcomer)),
        (1, true) => cache.register_resource_mutation_reactor::<RsA>(persistent(newcomer)),
        (_, false) => cache.register_any_entity_event_reactor::<EvA>(persistent(newcomer)),
        (_, true) => cache.register_any_entity_event_reactor::<CoA>(persistent(newcomer)),
    }
    let table = match which { 0 => &cache.broadcast_reactors, 1 => &cache.resource_reactors, _ => &cache.any_entity_event_reactors };
    let key_a = if which == 1 { TypeId::of::<RsKeyA>() } else { TypeId::of::<EvA>() };
    if which == 1 && !new_key
    {
        // (resource lists are keyed by the resource type: the pre-state's key A is EvA, so RsKeyA is a fresh key)
        assert!(table.get(&key_a).map(|l| l.len() == 1 && l[0].sys_command() == sysc(newcomer)).unwrap_or(false), "C01: a first registration creates the list with exactly that entry");
        assert!(table.get(&TypeId::of::<EvA>()).map(|l| whole_list_is(l, &ids, 0, ka, None)).unwrap_or(ka == 0), "C01: other keys untouched");
    }
    else if new_key
    {
        let fresh = if which == 1 { TypeId::of::<RsA>() } else { TypeId::of::<CoA>() };
        assert!(table.get(&fresh).map(|l| l.len() == 1 && l[0].sys_command() == sysc(newcomer)).unwrap_or(false), "C01: a first registration creates the list with exactly that entry");
        assert!(table.get(&TypeId::of::<EvA>()).map(|l| whole_list_is(l, &ids, 0, ka, None)).unwrap_or(ka == 0), "C01: other keys untouched");
    }
    else
    {
        assert!(table.get(&key_a).map(|l| whole_list_is(l, &ids, 0, ka, Some(newcomer))).unwrap_or(false), "C01: one registration = exactly one new entry, at the end, earlier entries untouched (also when the same reactor is already registered)");
    }
    assert!(table.get(&TypeId::of::<EvB>()).map(|l| whole_list_is(l, &ids, 4, kb, None)).unwrap_or(kb == 0), "C01: other keys untouched");
    let others_empty = match which
    {
        0 => cache.resource_reactors.m_len == 0 && cache.any_entity_event_reactors.m_len == 0,
        1 => cache.broadcast_reactors.m_len == 0 && cache.any_entity_event_reactors.m_len == 0,
        _ => cache.broadcast_reactors.m_len == 0 && cache.resource_reactors.m_len == 0,
    };
    assert!(others_empty && cache.component_reactors.m_len == 0 && cache.despawn_reactors.m_len == 0, "C01: a registration of one kind creates nothing under any other kind");
    kani::cover!(true, "end of harness reached");
    std::mem::forget(cache);
}
pub struct RsKeyA(pub u8);
impl ReactResource for RsKeyA {}
macro_rules! reg_list {
    ($name:ident, $unwind:literal, $which:literal, $ka:literal, $kb:literal, $new:literal) => {
        #[kani::proof]
        #[kani::stub(core::any::TypeId::of, crate::vh::stub_typeid_of)]
        #[kani::stub(<core::any::TypeId as crate::vh::PEq>::eq, crate::vh::stub_typeid_eq)]
        #[kani::unwind($unwind)] fn $name() { register_list_kernel($which, $ka, $kb, $new) }
    };
}
reg_list!(rc_register_broadcast_2_1, 4, 0, 2, 1, false);
reg_list!(rc_register_broadcast_new_key, 4, 0, 1, 0, true);
reg_list!(rc_register_resource_1_1, 4, 1, 1, 1, false);
reg_list!(rc_register_any_event_2_0, 4, 2, 2, 0, false);

/// component reactors: the three kinds share one map entry; a registration of one kind appends to exactly that list
fn register_component_kernel(ki: usize, km: usize, kr: usize, kind: u8, existing: bool)
{
    let mut cache = ReactCache::default();
    let mut ids = [0u8; 8];
    if existing
    {
        let cr_a = ComponentReactors{
            insertion_callbacks: handle_list(ki, &mut ids, 0),
            mutation_callbacks: handle_list(km, &mut ids, 2),
            removal_callbacks: handle_list(kr, &mut ids, 4),
        };
        put2(&mut cache.component_reactors, Some((TypeId::of::<CoA>(), cr_a)), None);
    }
    let newcomer = any_below(NSYS);
    match kind
    {
        0 => cache.register_insertion_reactor::<CoA>(persistent(newcomer)),
        1 => cache.register_mutation_reactor::<CoA>(persistent(newcomer)),
        _ => cache.register_removal_reactor::<CoA>(persistent(newcomer)),
    }
    let (ki, km, kr) = if existing { (ki, km, kr) } else { (0, 0, 0) };
    match cache.component_reactors.get(&TypeId::of::<CoA>())
    {
        Some(cr) =>
        {
            assert!(whole_list_is(&cr.insertion_callbacks, &ids, 0, ki, if kind == 0 { Some(newcomer) } else { None }), "C01: insertion list: changed iff an insertion reactor was registered, by exactly one entry at the end");
            assert!(whole_list_is(&cr.mutation_callbacks, &ids, 2, km, if kind == 1 { Some(newcomer) } else { None }), "C01: mutation list: changed iff a mutation reactor was registered, by exactly one entry at the end");
            assert!(whole_list_is(&cr.removal_callbacks, &ids, 4, kr, if kind == 2 { Some(newcomer) } else { None }), "C01: removal list: changed iff a removal reactor was registered, by exactly one entry at the end");
        }
        None => panic!("C01: the registration must be stored under the component's type"),
    }
    assert!(cache.component_reactors.m_len == 1 && cache.broadcast_reactors.m_len == 0 && cache.resource_reactors.m_len == 0 && cache.any_entity_event_reactors.m_len == 0 && cache.despawn_reactors.m_len == 0,
        "C01: nothing is created under another type or kind");
    kani::cover!(true, "end of harness reached");
    std::mem::forget(cache);
}
macro_rules! reg_comp {
    ($name:ident, $ki:literal, $km:literal, $kr:literal, $kind:literal, $ex:literal) => {
        #[kani::proof]
        #[kani::stub(core::any::TypeId::of, crate::vh::stub_typeid_of)]
        #[kani::stub(<core::any::TypeId as crate::vh::PEq>::eq, crate::vh::stub_typeid_eq)]
        #[kani::unwind(4)] fn $name() { register_component_kernel($ki, $km, $kr, $kind, $ex) }
    };
}
reg_comp!(rc_register_insertion_1_1_1, 1, 1, 1, 0, true);
reg_comp!(rc_register_mutation_1_1_1, 1, 1, 1, 1, true);
reg_comp!(rc_register_removal_1_1_0, 1, 1, 0, 2, true);
reg_comp!(rc_register_mutation_fresh, 0, 0, 0, 1, false);

/// despawn reactors are keyed by the watched entity
#[kani::proof]
#[kani::stub(core::any::TypeId::of, crate::vh::stub_typeid_of)]
#[kani::stub(<core::any::TypeId as crate::vh::PEq>::eq, crate::vh::stub_typeid_eq)]
#[kani::unwind(4)]
fn rc_register_despawn_by_entity()
{
    let mut cache = ReactCache::default();
    let mut ids = [0u8; 8];
    let ea = ent(30); let eb = ent(31);
    put2(&mut cache.despawn_reactors, Some((ea, handle_list(1, &mut ids, 0))), Some((eb, handle_list(1, &mut ids, 4))));
    let newcomer = any_below(NSYS);
    let onto_b: bool = kani::any();
    cache.register_despawn_reactor(if onto_b { eb } else { ea }, persistent(newcomer));
    let la = cache.despawn_reactors.get(&ea).unwrap(); let lb = cache.despawn_reactors.get(&eb).unwrap();
    assert!(whole_list_is(la, &ids, 0, 1, if onto_b { None } else { Some(newcomer) }) && whole_list_is(lb, &ids, 4, 1, if onto_b { Some(newcomer) } else { None }),
        "C01/C08: a despawn registration is stored under exactly the watched entity, at the end of its list");
    assert!(cache.despawn_reactors.m_len == 2 && cache.broadcast_reactors.m_len == 0 && cache.component_reactors.m_len == 0);
    kani::cover!(onto_b, "second entity"); kani::cover!(!onto_b, "first entity");
    std::mem::forget(cache);
}
pub fn put_resource<R: 'static>(cache: &mut ReactCache, a: ReactorHandle)
{
    let mut v: Vec<ReactorHandle> = Vec::with_capacity(4);
    v.push(a);
    put2(&mut cache.resource_reactors, Some((TypeId::of::<R>(), v)), None);
}
pub fn put_any_entity_event<E: 'static>(cache: &mut ReactCache, a: ReactorHandle)
{
    let mut v: Vec<ReactorHandle> = Vec::with_capacity(4);
    v.push(a);
    put2(&mut cache.any_entity_event_reactors, Some((TypeId::of::<E>(), v)), None);
}
pub fn put_component_one_each<C: 'static>(cache: &mut ReactCache, ins: ReactorHandle, mutn: ReactorHandle)
{
    let mut vi: Vec<ReactorHandle> = Vec::with_capacity(2); vi.push(ins);
    let mut vm: Vec<ReactorHandle> = Vec::with_capacity(2); vm.push(mutn);
    let cr = ComponentReactors{ insertion_callbacks: vi, mutation_callbacks: vm, removal_callbacks: Vec::new() };
    put2(&mut cache.component_reactors, Some((TypeId::of::<C>(), cr)), None);
}
pub fn broadcast_first_is_refcounted<E: 'static>(cache: &ReactCache) -> bool
{
    cache.broadcast_reactors.get(&TypeId::of::<E>()).and_then(|l| l.first().map(|h| matches!(h, ReactorHandle::AutoDespawn(_)))).unwrap_or(false)
}
