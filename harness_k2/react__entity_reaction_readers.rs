// K2 harnesses over the real src/react/entity_reaction_readers.rs.
use bevy::ecs::system::{Res, Local};
pub struct Ca(pub u8);
impl ReactComponent for Ca {}
pub struct Cb(pub u8);
impl ReactComponent for Cb {}

/// C03 / C04: the insertion / mutation / removal readers answer iff reacting AND the kind matches AND the component
/// type matches; then they return the tracker's source entity.
#[kani::proof]
#[kani::stub(core::any::TypeId::of, crate::vh::stub_typeid_of)]
#[kani::stub(<core::any::TypeId as crate::vh::PEq>::eq, crate::vh::stub_typeid_eq)]
#[kani::unwind(4)]
fn entity_reaction_readers_match_kind_and_type()
{
    let mut world = World::new();
    let reacting: bool = kani::any();
    let kind = any_below(4);
    let of_a: bool = kani::any();
    let tid = if of_a { TypeId::of::<Ca>() } else { TypeId::of::<Cb>() };
    let rtype = match kind { 0 => EntityReactionType::Insertion(tid), 1 => EntityReactionType::Mutation(tid), 2 => EntityReactionType::Removal(tid), _ => EntityReactionType::Event(tid) };
    let source = ent(any_below(20) as u32);
    let tracker = EntityReactionAccessTracker{ currently_reacting: reacting, system: SystemCommand(ent(50)), reaction_source: source, reaction_type: rtype, prepared: Vec::new() };
    let mut id_a = ReactComponentId::<Ca>::from_world(&mut world);
    let mut id_a2 = ReactComponentId::<Ca>::from_world(&mut world);
    let mut id_a3 = ReactComponentId::<Ca>::from_world(&mut world);
    let ins: InsertionEvent<Ca> = InsertionEvent{ component_id: Local::m_new(&mut id_a), tracker: Res::m_new(&tracker) };
    let mu: MutationEvent<Ca> = MutationEvent{ component_id: Local::m_new(&mut id_a2), tracker: Res::m_new(&tracker) };
    let rem: RemovalEvent<Ca> = RemovalEvent{ component_id: Local::m_new(&mut id_a3), tracker: Res::m_new(&tracker) };
    match ins.get() { Ok(e) => assert!(reacting && kind == 0 && of_a && e == source, "C03: insertion reader"), Err(_) => assert!(!(reacting && kind == 0 && of_a), "C03: insertion reader answers its own event") }
    match mu.get() { Ok(e) => assert!(reacting && kind == 1 && of_a && e == source, "C03: mutation reader"), Err(_) => assert!(!(reacting && kind == 1 && of_a), "C03: mutation reader answers its own event") }
    match rem.get() { Ok(e) => assert!(reacting && kind == 2 && of_a && e == source, "C03: removal reader"), Err(_) => assert!(!(reacting && kind == 2 && of_a), "C03: removal reader answers its own event") }
    kani::cover!(reacting && kind == 1 && !of_a, "reacting to a mutation of another component type");
    std::mem::forget(world);
}

/// introspection of the tracker for harnesses of sibling modules
pub fn ent_prepared_len(t: &EntityReactionAccessTracker) -> usize { t.prepared.len() }
pub fn ent_prepared_at(t: &EntityReactionAccessTracker, i: usize) -> (SystemCommand, Entity, EntityReactionType) { t.prepared[i] }
pub fn ent_reacting(t: &EntityReactionAccessTracker) -> bool { t.currently_reacting }
pub fn ent_current(t: &EntityReactionAccessTracker) -> (SystemCommand, Entity, EntityReactionType) { (t.system, t.reaction_source, t.reaction_type) }

use crate::react::entity_world_reactor::verif_h::{TR, mk_entity_reactor, mk_local};

/// C16 / C03: during a run of the entity world reactor caused by entity X, `EntityLocal` exposes exactly X's local data -
/// not another entity's - and `get_mut` modifies X's data only.  (Which entity is the source is symbolic.)
#[kani::proof]
#[kani::stub(core::any::TypeId::of, crate::vh::stub_typeid_of)]
#[kani::stub(<core::any::TypeId as crate::vh::PEq>::eq, crate::vh::stub_typeid_eq)]
#[kani::unwind(4)]
fn entity_local_exposes_the_source_entitys_data()
{
    let mut world = World::new();
    let d1: u8 = kani::any(); let d2: u8 = kani::any();
    let e1 = world.spawn(mk_local::<TR>(d1)).id();
    let e2 = world.spawn(mk_local::<TR>(d2)).id();
    let reactor_sys = SystemCommand(ent(50));
    let mut res = EntityWorldReactorRes::<TR>::new(reactor_sys);
    let from_first: bool = kani::any();
    let source = if from_first { e1 } else { e2 };
    let tracker = EntityReactionAccessTracker{ currently_reacting: true, system: reactor_sys, reaction_source: source,
        reaction_type: EntityReactionType::Mutation(TypeId::of::<Ca>()), prepared: Vec::new() };
    let wp = &mut world as *mut World;
    {
        let mut local: EntityLocal<TR> = EntityLocal{ reactor: mk_entity_reactor(&mut res), tracker: Res::m_new(&tracker), data: qry(wp) };
        assert!(local.entity() == source, "C16: the entity that caused the run");
        let (e, v) = local.get();
        assert!(e == source && *v == (if from_first { d1 } else { d2 }), "C16/C03: exactly the local data attached to the causing entity");
        let (e, v) = local.get_mut();
        assert!(e == source);
        *v = v.wrapping_add(1);
    }
    let v1 = *world.get::<EntityWorldLocal<TR>>(e1).unwrap().inner();
    let v2 = *world.get::<EntityWorldLocal<TR>>(e2).unwrap().inner();
    assert!(v1 == (if from_first { d1.wrapping_add(1) } else { d1 }) && v2 == (if from_first { d2 } else { d2.wrapping_add(1) }), "C16: a modification lands on the causing entity's data only");
    kani::cover!(from_first, "first entity"); kani::cover!(!from_first, "second entity");
    std::mem::forget(world);
}
