// K2 harnesses over the real src/react/system_event_reader.rs.
use bevy::ecs::system::Res;
pub struct Sa(pub u8);

/// C03 / C04: `SystemEvent::take` hands out the payload of the event being reacted to, once, and nothing otherwise.
#[kani::proof]
#[kani::stub(core::any::TypeId::of, crate::vh::stub_typeid_of)]
#[kani::stub(<core::any::TypeId as crate::vh::PEq>::eq, crate::vh::stub_typeid_eq)]
#[kani::unwind(4)]
fn system_event_take_once_while_reacting()
{
    let mut world = World::new();
    let payload: u8 = kani::any();
    let d = world.spawn(SystemEventData::new(Sa(payload))).id();
    let reacting: bool = kani::any();
    let tracker = SystemEventAccessTracker{ currently_reacting: reacting, data_entity: d, prepared: Vec::new() };
    let wp = &mut world as *mut World;
    let mut ev: SystemEvent<Sa> = SystemEvent{ tracker: Res::m_new(&tracker), data: qry(wp) };
    match ev.take()
    {
        Ok(p) => assert!(reacting && p.0 == payload, "C03/C04: only the reacting run can take the payload, and it is its own"),
        Err(_) => assert!(!reacting, "C03: the reacting run can take its payload"),
    }
    assert!(ev.take().is_err(), "C04: a system-event payload can be taken at most once");
    kani::cover!(reacting, "reacting");
    kani::cover!(!reacting, "not reacting: data alive but invisible");
    std::mem::forget(world);
}

/// introspection of the tracker for harnesses of sibling modules
pub fn sysevt_prepared_len(t: &SystemEventAccessTracker) -> usize { t.prepared.len() }
pub fn sysevt_prepared_at(t: &SystemEventAccessTracker, i: usize) -> (SystemCommand, Entity) { t.prepared[i] }
pub fn sysevt_reacting(t: &SystemEventAccessTracker) -> bool { t.currently_reacting }
pub fn sysevt_data_entity(t: &SystemEventAccessTracker) -> Entity { t.data_entity }
