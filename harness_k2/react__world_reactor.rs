// K2 harnesses over the real src/react/world_reactor.rs.
use bevy::ecs::system::Res;
pub struct Wev(pub u8);
pub struct WR;
impl WorldReactor for WR
{
    type StartingTriggers = ();
    type Triggers = BroadcastTrigger<Wev>;
    fn reactor(self) -> SystemCommandCallback { SystemCommandCallback::with(|_, _| {}) }
}

/// C16: `Reactor::{add,remove,run}` address the ONE system command held by the reactor's resource: `run` queues
/// exactly that system command, `add`/`remove` queue exactly one (de)registration and never reserve an entity;
/// a missing reactor resource changes nothing.
#[kani::proof]
#[kani::stub(core::any::TypeId::of, crate::vh::stub_typeid_of)]
#[kani::stub(<core::any::TypeId as crate::vh::PEq>::eq, crate::vh::stub_typeid_eq)]
#[kani::unwind(4)]
fn world_reactor_uses_its_single_system()
{
    let mut world = World::new();
    let present: bool = kani::any();
    let sys = SystemCommand(ent(any_below(40) as u32));
    let res = WorldReactorRes::<WR>::new(sys);
    let reactor: Reactor<WR> = Reactor{ inner: if present { Some(Res::m_new(&res)) } else { None } };
    let mut captured: Vec<SystemCommand> = Vec::with_capacity(2);
    world.m_capture(&mut captured);
    let wp = &mut world as *mut World;
    let mut c = cmds(wp);
    assert!(reactor.run(&mut c) == present);
    assert!(captured.len() == if present { 1 } else { 0 }, "C16: run queues the reactor's own system command, once");
    if present { assert!(captured[0] == sys, "C16: the single shared system, not a copy"); }
    let q0 = world.m_queued();
    assert!(reactor.add(&mut c, broadcast::<Wev>()) == present);
    assert!(world.m_queued() == q0 + if present { 1 } else { 0 }, "C16: add queues exactly one registration");
    assert!(reactor.remove(&mut c, broadcast::<Wev>()) == present);
    assert!(world.m_queued() == q0 + if present { 2 } else { 0 }, "C16: remove queues exactly one revoke");
    assert!(world.m_nslots == 0, "C16: the system is never duplicated: no entity is reserved by add/remove/run");
    kani::cover!(present, "reactor present");
    kani::cover!(!present, "reactor missing");
    std::mem::forget(captured); std::mem::forget(world);
}
