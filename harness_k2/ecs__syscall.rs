// K2 harnesses over the real src/ecs/syscall.rs.
use bevy::ecs::system::{Local, Resource};
pub struct Hits2(pub u8);
impl Resource for Hits2 {}
pub struct Bump2;
impl Command for Bump2 { fn apply(self, w: &mut World) { w.resource_mut::<Hits2>().0 += 1; } }
fn counting_a(In(x): In<u8>, mut c: Commands, mut n: Local<u8>) -> u8 { *n += 1; c.queue(Bump2); x + *n }
fn counting_b(In(x): In<u8>, mut n: Local<u8>) -> u8 { *n += 10; x + *n }
fn validation(w: &mut World) { w.resource_mut::<Hits2>().0 += 100; }

/// C17: `syscall` caches one system per function type: state persists across calls with the same function and is
/// independent between functions; queued commands are applied on return; validation runs on first use only.
#[kani::proof]
#[kani::stub(core::any::TypeId::of, crate::vh::stub_typeid_of)]
#[kani::stub(<core::any::TypeId as crate::vh::PEq>::eq, crate::vh::stub_typeid_eq)]
#[kani::unwind(4)]
fn syscall_state_per_function_type()
{
    let mut world = World::new();
    world.m_apply_table::<(Bump2,)>();
    world.insert_resource(Hits2(0));
    let x: u8 = kani::any();
    kani::assume(x < 50);
    assert!(syscall_with_validation(&mut world, x, counting_a, validation) == x + 1);
    assert!(world.resource::<Hits2>().0 == 101, "C17: validation ran once and the queued command was applied before returning");
    assert!(syscall_with_validation(&mut world, x, counting_a, validation) == x + 2, "C17: same function type: the Local continues");
    assert!(world.resource::<Hits2>().0 == 102, "C17: validation only on first use");
    assert!(syscall(&mut world, x, counting_b) == x + 10, "C17: another function has its own state");
    assert!(syscall(&mut world, x, counting_a) == x + 3, "C17: and does not disturb the first one's");
    assert!(world.syscall_once(x, counting_a) == x + 1, "C17: syscall_once uses a fresh, uncached system");
    std::mem::forget(world);
    kani::cover!(true, "end of harness reached");
}
