// K2 harnesses over the real src/react/despawn_reader.rs.
use bevy::ecs::system::Res;

/// C03 / C04: the despawn reader answers iff reacting, with the tracker's source.
#[kani::proof]
#[kani::stub(core::any::TypeId::of, crate::vh::stub_typeid_of)]
#[kani::stub(<core::any::TypeId as crate::vh::PEq>::eq, crate::vh::stub_typeid_eq)]
#[kani::unwind(4)]
fn despawn_reader_only_while_reacting()
{
    let reacting: bool = kani::any();
    let source = ent(any_below(20) as u32);
    let tracker = DespawnAccessTracker{ currently_reacting: reacting, reaction_source: source, reactor_handle: None, prepared: Vec::new() };
    let ev = DespawnEvent{ tracker: Res::m_new(&tracker) };
    match ev.get() { Ok(e) => assert!(reacting && e == source, "C03/C04: despawn reader"), Err(_) => assert!(!reacting, "C03: the reacting run reads its despawned entity") }
    assert!(ev.is_empty() == !reacting);
    std::mem::forget(tracker);
    kani::cover!(true, "end of harness reached");
}

/// introspection of the tracker for harnesses of sibling modules
pub fn desp_prepared_len(t: &DespawnAccessTracker) -> usize { t.prepared.len() }
pub fn desp_prepared_at(t: &DespawnAccessTracker, i: usize) -> (SystemCommand, Entity) { (t.prepared[i].0, t.prepared[i].1) }
pub fn desp_prepared_handle(t: &DespawnAccessTracker, i: usize) -> &ReactorHandle { &t.prepared[i].2 }
pub fn desp_reacting(t: &DespawnAccessTracker) -> bool { t.currently_reacting }
pub fn desp_source(t: &DespawnAccessTracker) -> Entity { t.reaction_source }
pub fn desp_holds_handle(t: &DespawnAccessTracker) -> bool { t.reactor_handle.is_some() }
