// K2 helpers over the real src/react/command_queue.rs (private-field observers for other harness modules).
pub fn queue_len<T: Send + Sync + 'static>(q: &CobwebCommandQueue<T>) -> usize { q.commands.len() }
pub fn queue_at<T: Send + Sync + 'static + Copy>(q: &CobwebCommandQueue<T>, i: usize) -> T { q.commands[i] }
pub fn cached_buffers<T: Send + Sync + 'static>(q: &CobwebCommandQueue<T>) -> usize { q.buffers.len() }
