// K2 helpers over the real src/react/command_queue.rs (private-field observers for other harness modules).
pub fn queue_len<T: Send + Sync + 'static>(q: &CobwebCommandQueue<T>) -> usize { q.commands.len() }
pub fn queue_at<T: Send + Sync + 'static + Copy>(q: &CobwebCommandQueue<T>, i: usize) -> T { q.commands[i] }
pub fn cached_buffers<T: Send + Sync + 'static>(q: &CobwebCommandQueue<T>) -> usize { q.buffers.len() }
/// true iff no cached (spare) buffer holds a command: a command sitting there is lost for good
pub fn no_cached_commands<T: Send + Sync + 'static>(q: &CobwebCommandQueue<T>) -> bool
{
    let mut ok = true;
    let mut i = 0;
    while i < q.buffers.len() { if q.buffers[i].len() != 0 { ok = false; } i += 1; }
    ok
}
