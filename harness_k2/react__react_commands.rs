// K2 harnesses over the real src/react/react_commands.rs.
use bevy::ecs::system::{Res, ResMut};
use core::any::TypeId;
use bevy::world::CmdMode;
use std::sync::Arc;
pub struct Ea(pub u8);
pub struct Eb(pub u8);
pub struct Ka(pub u8);
impl ReactComponent for Ka {}

/// C06 / C07 / C18: `revoke_reactor` walks the WHOLE token: an entity-scoped trigger whose entity is gone is
/// skipped, every other trigger named by the token is still revoked; triggers not named survive.
fn revoke_reactor_routes_every_trigger(dead: bool)
{
    let mut world = World::new();
    let mut cache = ReactCache::default();
    let me = SystemCommand(ent(41));
    let neighbour = SystemCommand(ent(42));
    // type-wide: [me, neighbour] on broadcast Ea; entity-scoped: target carries (Mutation Ka, me), (Mutation Ka, neighbour), (Insertion Ka, me)
    crate::react::react_cache::verif_h::put_broadcast::<Ea>(&mut cache, ReactorHandle::Persistent(me), ReactorHandle::Persistent(neighbour));
    let mut table = EntityReactors::default();
    let mut_k = EntityReactionType::Mutation(TypeId::of::<Ka>());
    let ins_k = EntityReactionType::Insertion(TypeId::of::<Ka>());
    table.insert(mut_k, ReactorHandle::Persistent(me));
    table.insert(ins_k, ReactorHandle::Persistent(me));
    let live = world.spawn(table).id();
    // a despawned entity is named by a stale id (same index, older generation): every lookup fails like for a dead entity
    let target = if dead { Entity::m_new(live.index(), live.generation() + 1) } else { live };

    let token = RevokeToken{
        reactors: { let a: Arc<[ReactorType; 2]> = Arc::new([ReactorType::EntityMutation(target, TypeId::of::<Ka>()), ReactorType::Broadcast(TypeId::of::<Ea>())]); a },   // constant-size allocation (Arc::from(slice) allocates a symbolic size)
        id: me,
    };
    let wp = &mut world as *mut World;
    revoke_reactor(In(token), ResMut::m_new(&mut cache), qry(wp));

    assert!(crate::react::react_cache::verif_h::broadcast_entries::<Ea>(&cache) == 1
        && crate::react::react_cache::verif_h::broadcast_first::<Ea>(&cache) == Some(neighbour),
        "C06/C18: the type-wide trigger named after a dead entity's trigger is still revoked; the neighbour stays");
    if !dead
    {
        let t = world.get::<EntityReactors>(target).unwrap();
        assert!(t.count(mut_k) == 0, "C06: the named entity trigger of this reactor is revoked");
        assert!(t.count(ins_k) == 1, "C06: a trigger of the same reactor that the token does not name keeps working");
    }
    kani::cover!(true, "end reached");
    std::mem::forget(world); std::mem::forget(cache);
}
#[kani::proof]
#[kani::stub(core::any::TypeId::of, crate::vh::stub_typeid_of)]
#[kani::stub(<core::any::TypeId as crate::vh::PEq>::eq, crate::vh::stub_typeid_eq)]
#[kani::unwind(4)]
fn revoke_routing_dead_entity_first() { revoke_reactor_routes_every_trigger(true) }
#[kani::proof]
#[kani::stub(core::any::TypeId::of, crate::vh::stub_typeid_of)]
#[kani::stub(<core::any::TypeId as crate::vh::PEq>::eq, crate::vh::stub_typeid_eq)]
#[kani::unwind(4)]
fn revoke_routing_live_entity() { revoke_reactor_routes_every_trigger(false) }

/// recorder standing in for `EntityReactors::remove` (what a removal does to a table is decided by entreactors.remove_*):
/// which table was addressed, with which reaction type and reactor id
pub static mut REMOVALS: usize = 0x5EED_0D00;
pub static mut REMOVED: [(usize, u8, bool, u32); 4] = [(0x5EED, 9, false, 0); 4];
pub fn removals() -> usize { unsafe { REMOVALS - 0x5EED_0D00 } }
pub fn record_remove(this: &mut EntityReactors, rtype: EntityReactionType, reactor_id: SystemCommand)
{
    let (kind, is_ka) = match rtype
    {
        EntityReactionType::Insertion(t) => (0u8, t == TypeId::of::<Ka>()),
        EntityReactionType::Mutation(t)  => (1u8, t == TypeId::of::<Ka>()),
        EntityReactionType::Removal(t)   => (2u8, t == TypeId::of::<Ka>()),
        EntityReactionType::Event(t)     => (3u8, t == TypeId::of::<Ea>()),
    };
    unsafe
    {
        let n = removals();
        if n < 4 { REMOVED[n] = (this as *mut EntityReactors as usize, kind, is_ka, reactor_id.index()); }
        REMOVALS += 1;
    }
}

/// C06 (locality of the entity-scoped part): a token naming (insertion of Ka on e1) and (event Ea on e2) addresses
/// exactly those two (entity, reaction type) pairs, each once, for the token's reactor: e1's table is asked to remove
/// the insertion trigger only, e2's table the event trigger only - the same reactor's event trigger on e1 and insertion
/// trigger on e2, which the token does not name, are not touched.  `EntityReactors::remove` is replaced by a recorder.
#[kani::proof]
#[kani::stub(core::any::TypeId::of, crate::vh::stub_typeid_of)]
#[kani::stub(<core::any::TypeId as crate::vh::PEq>::eq, crate::vh::stub_typeid_eq)]
#[kani::stub(EntityReactors::remove, record_remove)]
#[kani::unwind(4)]
fn revoke_reactor_exact_pairs_two_entities()
{
    let mut world = World::new();
    let mut cache = ReactCache::default();
    let me = SystemCommand(ent(41));
    let e1 = world.spawn(EntityReactors::default()).id();
    let e2 = world.spawn(EntityReactors::default()).id();
    let token = RevokeToken{
        reactors: { let a: Arc<[ReactorType; 2]> = Arc::new([ReactorType::EntityInsertion(e1, TypeId::of::<Ka>()), ReactorType::EntityEvent(e2, TypeId::of::<Ea>())]); a },
        id: me,
    };
    let wp = &mut world as *mut World;
    revoke_reactor(In(token), ResMut::m_new(&mut cache), qry(wp));
    let p1 = world.get::<EntityReactors>(e1).unwrap() as *const EntityReactors as usize;
    let p2 = world.get::<EntityReactors>(e2).unwrap() as *const EntityReactors as usize;
    assert!(removals() == 2, "C06 (complete + local): one removal per entity-scoped trigger the token names, no other table access");
    let (r0, r1) = unsafe { (REMOVED[0], REMOVED[1]) };
    let want1 = (p1, 0u8, true, 41u32);     // (e1's table, Insertion, of Ka, this reactor)
    let want2 = (p2, 3u8, true, 41u32);     // (e2's table, Event, of Ea, this reactor)
    assert!((r0 == want1 && r1 == want2) || (r0 == want2 && r1 == want1),
        "C06 (local): e1's table is asked to remove exactly (Insertion Ka), e2's exactly (Event Ea), for this reactor - not e1's event trigger, not e2's insertion trigger (either order)");
    kani::cover!(true, "end of harness reached");
    std::mem::forget(world); std::mem::forget(cache);
}

// ---- revoke_reactor: every kind of trigger is routed to its kernel (all eleven ReactorType variants) -------------------
/// one record per kernel call: (kernel, sub-kind, type is the expected one, entity index / table address, reactor index)
/// kernels: 0 EntityReactors::remove, 1 broadcast, 2 resource, 3 any-entity-event, 4 component, 5 despawn
pub static mut ROUTED_N: usize = 0x5EED_0E00;
pub static mut ROUTED: [(u8, u8, bool, usize, u32); 4] = [(9, 9, false, 0x5EED, 0); 4];
pub fn routed() -> usize { unsafe { ROUTED_N - 0x5EED_0E00 } }
fn route(rec: (u8, u8, bool, usize, u32)) { unsafe { let n = routed(); if n < 4 { ROUTED[n] = rec; } ROUTED_N += 1; } }
pub struct Tk;      // THE type every token entry of the routing harness names
fn rkind(rtype: EntityReactionType) -> (u8, bool)
{
    match rtype
    {
        EntityReactionType::Insertion(t) => (0u8, t == TypeId::of::<Tk>()),
        EntityReactionType::Mutation(t)  => (1u8, t == TypeId::of::<Tk>()),
        EntityReactionType::Removal(t)   => (2u8, t == TypeId::of::<Tk>()),
        EntityReactionType::Event(t)     => (3u8, t == TypeId::of::<Tk>()),
    }
}
pub fn rec_entity_remove(this: &mut EntityReactors, rtype: EntityReactionType, id: SystemCommand)
{ let (k, ok) = rkind(rtype); route((0, k, ok, this as *mut EntityReactors as usize, id.index())); }
pub fn rec_broadcast(_c: &mut ReactCache, t: TypeId, id: SystemCommand) { route((1, 0, t == TypeId::of::<Tk>(), 0, id.index())); }
pub fn rec_resource(_c: &mut ReactCache, t: TypeId, id: SystemCommand) { route((2, 0, t == TypeId::of::<Tk>(), 0, id.index())); }
pub fn rec_any_event(_c: &mut ReactCache, t: TypeId, id: SystemCommand) { route((3, 0, t == TypeId::of::<Tk>(), 0, id.index())); }
pub fn rec_component(_c: &mut ReactCache, rtype: EntityReactionType, id: SystemCommand) { let (k, ok) = rkind(rtype); route((4, k, ok, 0, id.index())); }
pub fn rec_despawn(_c: &mut ReactCache, e: Entity, id: SystemCommand) { route((5, 0, true, e.index() as usize, id.index())); }

/// the i-th of the eleven trigger kinds, aimed at `target` where the kind has a target; and the kernel call it must cause
fn kind_of(i: u8, target: Entity, table: usize) -> (ReactorType, (u8, u8, bool, usize, u32))
{
    let t = TypeId::of::<Tk>();
    match i
    {
        0 => (ReactorType::EntityInsertion(target, t), (0, 0, true, table, 41)),
        1 => (ReactorType::EntityMutation(target, t), (0, 1, true, table, 41)),
        2 => (ReactorType::EntityRemoval(target, t), (0, 2, true, table, 41)),
        3 => (ReactorType::EntityEvent(target, t), (0, 3, true, table, 41)),
        4 => (ReactorType::AnyEntityEvent(t), (3, 0, true, 0, 41)),
        5 => (ReactorType::ComponentInsertion(t), (4, 0, true, 0, 41)),
        6 => (ReactorType::ComponentMutation(t), (4, 1, true, 0, 41)),
        7 => (ReactorType::ComponentRemoval(t), (4, 2, true, 0, 41)),
        8 => (ReactorType::ResourceMutation(t), (2, 0, true, 0, 41)),
        9 => (ReactorType::Broadcast(t), (1, 0, true, 0, 41)),
        _ => (ReactorType::Despawn(target), (5, 0, true, target.index() as usize, 41)),
    }
}

/// C06 (complete + local, the walk over the token): a two-entry token whose entries are EACH symbolically any of the
/// eleven trigger kinds (121 combinations, duplicates included), aimed at two different live entities: `revoke_reactor`
/// makes exactly one kernel call per entry (any order), each to the kernel of that kind with that entry's type key /
/// entity and the token's reactor id - nothing is skipped, nothing else is addressed.  All six kernels are recorders
/// (their own behaviour: rc.revoke_*, entreactors.remove_*).
#[kani::proof]
#[kani::stub(core::any::TypeId::of, crate::vh::stub_typeid_of)]
#[kani::stub(<core::any::TypeId as crate::vh::PEq>::eq, crate::vh::stub_typeid_eq)]
#[kani::stub(EntityReactors::remove, rec_entity_remove)]
#[kani::stub(ReactCache::revoke_broadcast_reactor, rec_broadcast)]
#[kani::stub(ReactCache::revoke_resource_mutation_reactor, rec_resource)]
#[kani::stub(ReactCache::revoke_any_entity_event_reactor, rec_any_event)]
#[kani::stub(ReactCache::revoke_component_reactor, rec_component)]
#[kani::stub(ReactCache::revoke_despawn_reactor, rec_despawn)]
#[kani::unwind(4)]
fn revoke_reactor_routes_all_kinds()
{
    let mut world = World::new();
    let mut cache = ReactCache::default();
    let me = SystemCommand(ent(41));
    let e1 = world.spawn(EntityReactors::default()).id();
    let e2 = world.spawn(EntityReactors::default()).id();
    let p1 = world.get::<EntityReactors>(e1).unwrap() as *const EntityReactors as usize;
    let p2 = world.get::<EntityReactors>(e2).unwrap() as *const EntityReactors as usize;
    let k1 = any_below(11); let k2 = any_below(11);
    let (t1, want1) = kind_of(k1, e1, p1);
    let (t2, want2) = kind_of(k2, e2, p2);
    let token = RevokeToken{ reactors: { let a: Arc<[ReactorType; 2]> = Arc::new([t1, t2]); a }, id: me };
    let wp = &mut world as *mut World;
    revoke_reactor(In(token), ResMut::m_new(&mut cache), qry(wp));
    assert!(routed() == 2, "C06: exactly one kernel call per trigger the token names (none skipped, none extra)");
    let (r0, r1) = unsafe { (ROUTED[0], ROUTED[1]) };
    assert!((r0 == want1 && r1 == want2) || (r0 == want2 && r1 == want1),
        "C06: each trigger reaches the kernel of ITS kind with ITS type key / entity and the token's reactor id (either order)");
    kani::cover!(k1 == 0 && k2 == 10, "entity insertion + despawn"); kani::cover!(k1 == 9 && k2 == 9, "the same broadcast twice");
    kani::cover!(k1 == 7 && k2 == 3, "component removal + entity event");
    std::mem::forget(world); std::mem::forget(cache);
}

/// The same with THREE entries (1331 combinations) aimed at three live entities; the calls are compared as multisets.
#[kani::proof]
#[kani::stub(core::any::TypeId::of, crate::vh::stub_typeid_of)]
#[kani::stub(<core::any::TypeId as crate::vh::PEq>::eq, crate::vh::stub_typeid_eq)]
#[kani::stub(EntityReactors::remove, rec_entity_remove)]
#[kani::stub(ReactCache::revoke_broadcast_reactor, rec_broadcast)]
#[kani::stub(ReactCache::revoke_resource_mutation_reactor, rec_resource)]
#[kani::stub(ReactCache::revoke_any_entity_event_reactor, rec_any_event)]
#[kani::stub(ReactCache::revoke_component_reactor, rec_component)]
#[kani::stub(ReactCache::revoke_despawn_reactor, rec_despawn)]
#[kani::unwind(5)]
fn revoke_reactor_routes_all_kinds_3()
{
    let mut world = World::new();
    let mut cache = ReactCache::default();
    let me = SystemCommand(ent(41));
    let e1 = world.spawn(EntityReactors::default()).id();
    let e2 = world.spawn(EntityReactors::default()).id();
    let e3 = world.spawn(EntityReactors::default()).id();
    let p1 = world.get::<EntityReactors>(e1).unwrap() as *const EntityReactors as usize;
    let p2 = world.get::<EntityReactors>(e2).unwrap() as *const EntityReactors as usize;
    let p3 = world.get::<EntityReactors>(e3).unwrap() as *const EntityReactors as usize;
    let k1 = any_below(11); let k2 = any_below(11); let k3 = any_below(11);
    let (t1, w1) = kind_of(k1, e1, p1);
    let (t2, w2) = kind_of(k2, e2, p2);
    let (t3, w3) = kind_of(k3, e3, p3);
    let token = RevokeToken{ reactors: { let a: Arc<[ReactorType; 3]> = Arc::new([t1, t2, t3]); a }, id: me };
    let wp = &mut world as *mut World;
    revoke_reactor(In(token), ResMut::m_new(&mut cache), qry(wp));
    assert!(routed() == 3, "C06: exactly one kernel call per trigger the token names (none skipped, none extra)");
    let r = unsafe { [ROUTED[0], ROUTED[1], ROUTED[2]] };
    let w = [w1, w2, w3];
    let mut i = 0;
    while i < 3
    {
        let have = (r[0] == w[i]) as u8 + (r[1] == w[i]) as u8 + (r[2] == w[i]) as u8;
        let want = (w[0] == w[i]) as u8 + (w[1] == w[i]) as u8 + (w[2] == w[i]) as u8;
        assert!(have == want, "C06: each trigger reaches the kernel of ITS kind with ITS type key / entity and the token's reactor id, as often as the token names it");
        i += 1;
    }
    kani::cover!(k1 == 0 && k2 == 10 && k3 == 4, "three different kinds"); kani::cover!(k1 == 9 && k2 == 9 && k3 == 9, "the same broadcast three times");
    std::mem::forget(world); std::mem::forget(cache);
}

/// C07: the handle kind follows the mode, and the handle names exactly the given system command.
fn reactor_mode_prepare(m: u8)
{
    let despawner = crate::ecs::auto_despawn::verif_h::mk_despawner();
    let sys = SystemCommand(ent(any_below(50) as u32));
    let mode = match m { 0 => ReactorMode::Persistent, 1 => ReactorMode::Cleanup, _ => ReactorMode::Revokable };
    let h = mode.prepare(&despawner, sys);
    assert!(h.sys_command() == sys);
    let persistent = matches!(h, ReactorHandle::Persistent(_));
    assert!(persistent == (mode == ReactorMode::Persistent), "C07: persistent mode => plain handle; cleanup/revokable => ref-counted handle");
    let c = h.clone();
    drop(h);
    assert!(despawner.try_recv().is_none(), "C07: nothing is collected while a clone of the handle exists");
    drop(c);
    if persistent { assert!(despawner.try_recv().is_none(), "C07: a persistent reactor is never sent to the collector"); }
    else { assert!(despawner.try_recv() == Some(*sys) && despawner.try_recv().is_none(), "C07: collected exactly once after the last handle is dropped"); }
    kani::cover!(true, "end of harness reached");
}
#[kani::proof]
#[kani::stub(core::any::TypeId::of, crate::vh::stub_typeid_of)]
#[kani::stub(<core::any::TypeId as crate::vh::PEq>::eq, crate::vh::stub_typeid_eq)]
#[kani::unwind(4)]
fn mode_prepare_persistent() { reactor_mode_prepare(0) }
#[kani::proof]
#[kani::stub(core::any::TypeId::of, crate::vh::stub_typeid_of)]
#[kani::stub(<core::any::TypeId as crate::vh::PEq>::eq, crate::vh::stub_typeid_eq)]
#[kani::unwind(4)]
fn mode_prepare_cleanup() { reactor_mode_prepare(1) }
#[kani::proof]
#[kani::stub(core::any::TypeId::of, crate::vh::stub_typeid_of)]
#[kani::stub(<core::any::TypeId as crate::vh::PEq>::eq, crate::vh::stub_typeid_eq)]
#[kani::unwind(4)]
fn mode_prepare_revokable() { reactor_mode_prepare(2) }

/// C14 / C18: `ReactCommands::insert` queues the insertion and its reaction trigger iff the entity exists when the
/// call is made (nothing at all for a dead id); the queued insertion is a `try_insert` of `React{entity, component}`.
#[kani::proof]
#[kani::stub(core::any::TypeId::of, crate::vh::stub_typeid_of)]
#[kani::stub(<core::any::TypeId as crate::vh::PEq>::eq, crate::vh::stub_typeid_eq)]
#[kani::unwind(4)]
fn react_commands_insert_only_on_existing_entity()
{
    let mut world = World::new();
    let live = world.spawn_empty().id();
    let dead: bool = kani::any();
    let target = if dead { Entity::m_new(live.index(), live.generation() + 1) } else { live };
    let mut captured: Vec<bevy::world::InsertCommand<React<Ka>>> = Vec::with_capacity(2);
    world.m_capture(&mut captured);
    let wp = &mut world as *mut World;
    let mut rc = ReactCommands{ commands: cmds(wp) };
    let v: u8 = kani::any();
    rc.insert(target, Ka(v));
    if dead
    {
        assert!(world.m_queued() == 0 && captured.len() == 0, "C14/C18: inserting on an entity that does not exist triggers nothing and queues nothing");
    }
    else
    {
        assert!(world.m_queued() == 2 && captured.len() == 1, "C14: one insertion + exactly one insertion trigger");
        assert!(captured[0].entity == live && captured[0].try_ && captured[0].bundle.entity == live && captured[0].bundle.component.0 == v,
            "C14/C18: the component is inserted with try_insert (harmless if the entity dies meanwhile) and records its owner");
    }
    kani::cover!(dead, "dead id");
    kani::cover!(!dead, "live entity");
    std::mem::forget(captured); std::mem::forget(world);
}

/// C06 / C07 / C18, minimal form: a token whose FIRST trigger names an entity that no longer exists and whose second
/// trigger is type-wide - the type-wide registration must still be revoked (the walk does not stop at the dead entity).
#[kani::proof]
#[kani::stub(core::any::TypeId::of, crate::vh::stub_typeid_of)]
#[kani::stub(<core::any::TypeId as crate::vh::PEq>::eq, crate::vh::stub_typeid_eq)]
#[kani::unwind(3)]
fn revoke_reactor_continues_past_dead_entity()
{
    let mut world = World::new();
    let mut cache = ReactCache::default();
    let me = SystemCommand(ent(41));
    let neighbour = SystemCommand(ent(42));
    crate::react::react_cache::verif_h::put_broadcast::<Ea>(&mut cache, ReactorHandle::Persistent(me), ReactorHandle::Persistent(neighbour));
    let gone = Entity::m_new(0, 7);      // no such entity in the world
    let token = RevokeToken{
        reactors: { let a: Arc<[ReactorType; 2]> = Arc::new([ReactorType::EntityMutation(gone, TypeId::of::<Ka>()), ReactorType::Broadcast(TypeId::of::<Ea>())]); a },
        id: me,
    };
    let wp = &mut world as *mut World;
    revoke_reactor(In(token), ResMut::m_new(&mut cache), qry(wp));
    assert!(crate::react::react_cache::verif_h::broadcast_entries::<Ea>(&cache) == 1
        && crate::react::react_cache::verif_h::broadcast_first::<Ea>(&cache) == Some(neighbour),
        "C06/C18: the trigger named after a dead entity's trigger is still revoked; the neighbour stays");
    kani::cover!(true, "end of harness reached");
    std::mem::forget(world); std::mem::forget(cache);
}

//-------------------------------------------------------------------------------------------------------------------
// one-off reactors (C15)
//-------------------------------------------------------------------------------------------------------------------
pub struct OnceLog(pub u8);
impl bevy::ecs::system::Resource for OnceLog {}

/// recorder standing in for `ReactCommands::revoke` inside the once-wrapper (what a revoke does with a token is decided
/// by the C06 obligations; what the token names by token.every_member)
pub static mut REVOKES: usize = 0x5EED_0B00;
pub static mut REVOKED_ID: (u32, u32) = (0x5EED, 0);
pub static mut REVOKED_TRIGGERS: usize = 0x5EED_0C00;
pub fn revokes() -> usize { unsafe { REVOKES - 0x5EED_0B00 } }
pub fn record_revoke<'w, 's>(_rc: &mut ReactCommands<'w, 's>, token: RevokeToken) where 'w: 'w, 's: 's
{
    unsafe { REVOKES += 1; REVOKED_ID = (token.id.index(), token.id.generation()); REVOKED_TRIGGERS = 0x5EED_0C00 + token.reactors.len(); }
    std::mem::forget(token);
}

/// C15: the wrapper built by `ReactCommands::once` runs the user's reactor on its first invocation only, then despawns its
/// own entity and revokes its own token (all of the bundle's triggers); any later invocation (another of its triggers
/// firing in the same tree, or the reactor triggering itself) does nothing at all.
#[kani::proof]
#[kani::stub(core::any::TypeId::of, crate::vh::stub_typeid_of)]
#[kani::stub(<core::any::TypeId as crate::vh::PEq>::eq, crate::vh::stub_typeid_eq)]
#[kani::stub(ReactCommands::revoke, record_revoke)]
#[kani::unwind(4)]
fn once_reactor_runs_once_then_vanishes() { once_kernel() }
/// vacuity twin: the end of the once kernel is reachable
#[kani::proof]
#[kani::stub(core::any::TypeId::of, crate::vh::stub_typeid_of)]
#[kani::stub(<core::any::TypeId as crate::vh::PEq>::eq, crate::vh::stub_typeid_eq)]
#[kani::stub(ReactCommands::revoke, record_revoke)]
#[kani::unwind(4)]
fn once_reactor_witness() { once_kernel(); assert!(false, "witness: end of the once kernel reached"); }
fn once_kernel()
{
    let mut world = World::new();
    world.m_drop_table::<bevy::model::cell::LeakAll>();      // what the despawn drops is not the subject here
    world.insert_resource(ReactCache::default());
    world.insert_resource(crate::ecs::auto_despawn::verif_h::mk_despawner());
    world.insert_resource(OnceLog(0));
    let neighbour = world.spawn_empty().id();
    let mut captured: Vec<bevy::world::InsertCommand<SystemCommandStorage>> = Vec::with_capacity(2);
    world.m_capture(&mut captured);
    let wp = &mut world as *mut World;
    let token =
    {
        let mut rc = ReactCommands{ commands: cmds(wp) };
        rc.once((broadcast::<Ea>(), broadcast::<Eb>()), |mut log: bevy::ecs::system::ResMut<OnceLog>| { log.0 += 1; })
    };
    world.m_capture_end();
    assert!(captured.len() == 1 && world.m_queued() == 2, "C15: once() queues the registration and the storage of the wrapper");
    let reactor_entity = captured[0].entity;
    assert!(token.id == SystemCommand(reactor_entity) && token.reactors.len() == 2, "C15: the token names the wrapper's own entity and every trigger of the bundle");
    let _registration = world.m_pop_command();      // the registration command is set aside (decided by the registration obligations)
    world.flush_entities();
    let mut storage = captured.pop().unwrap().bundle;
    let mut callback = storage.take().unwrap();
    let extra_runs = crate::vh::any_below(3);      // how many more of its triggers fire afterwards

    callback.run(&mut world, SystemCommandCleanup::default());
    assert!(world.resource::<OnceLog>().0 == 1, "C15: the reactor ran on the first trigger");
    assert!(!world.m_alive(reactor_entity) && world.m_alive(neighbour), "C15: afterwards its entity is gone (and nothing else)");
    assert!(revokes() == 1 && unsafe { REVOKED_ID } == (reactor_entity.index(), reactor_entity.generation()) && unsafe { REVOKED_TRIGGERS } == 0x5EED_0C00 + 2,
        "C15: it revokes exactly its own token, naming all of its triggers");
    if extra_runs >= 1 { callback.run(&mut world, SystemCommandCleanup::default()); }
    if extra_runs >= 2 { callback.run(&mut world, SystemCommandCleanup::default()); }
    assert!(world.resource::<OnceLog>().0 == 1 && revokes() == 1, "C15: further triggers do not run it again and revoke nothing more");
    kani::cover!(extra_runs == 2, "two further invocations"); kani::cover!(extra_runs == 0, "no further invocation");
    std::mem::forget(callback); std::mem::forget(world); std::mem::forget(token);
}

/// helper for harnesses of sibling modules (`ReactorMode::prepare` is private to this module)
pub fn cleanup_handle(despawner: &AutoDespawner, sys: SystemCommand) -> ReactorHandle { ReactorMode::Cleanup.prepare(despawner, sys) }

/// C15 / C07: `register_reactors` (the deferred registration every `on*`/`once`/`with` ends in): an EMPTY trigger bundle in a
/// ref-counted mode registers nothing and hands the reactor to the collector at once (it is dropped without ever running);
/// a two-trigger bundle queues exactly one registration per trigger and the reactor is NOT released while those
/// registrations are in flight.
fn register_reactors_kernel(empty: bool)
{
    let mut world = World::new();
    world.m_drop_table::<bevy::model::cell::LeakAll>();
    let despawner = crate::ecs::auto_despawn::verif_h::mk_despawner();
    let sys = SystemCommand(ent(any_below(50) as u32));
    let mode = if kani::any() { ReactorMode::Revokable } else { ReactorMode::Cleanup };
    let wp = &mut world as *mut World;
    if empty { register_reactors(In(((), sys, mode)), cmds(wp), Res::m_new(&despawner)); }
    else { register_reactors(In(((broadcast::<Ea>(), broadcast::<Eb>()), sys, mode)), cmds(wp), Res::m_new(&despawner)); }
    if empty
    {
        assert!(world.m_queued() == 0, "C15: an empty bundle registers nothing");
        assert!(despawner.try_recv() == Some(*sys) && despawner.try_recv().is_none(), "C15/C07: a reactor registered with no trigger is handed to the collector at once, exactly once");
    }
    else
    {
        assert!(world.m_queued() == 2, "C01/C15: one deferred registration per trigger of the bundle");
        assert!(despawner.try_recv().is_none(), "C07: the reactor is not released while its registrations are in flight");
    }
    kani::cover!(true, "end of harness reached");
    std::mem::forget(world);
}
#[kani::proof]
#[kani::stub(core::any::TypeId::of, crate::vh::stub_typeid_of)]
#[kani::stub(<core::any::TypeId as crate::vh::PEq>::eq, crate::vh::stub_typeid_eq)]
#[kani::unwind(4)]
fn register_reactors_empty_bundle() { register_reactors_kernel(true) }
#[kani::proof]
#[kani::stub(core::any::TypeId::of, crate::vh::stub_typeid_of)]
#[kani::stub(<core::any::TypeId as crate::vh::PEq>::eq, crate::vh::stub_typeid_eq)]
#[kani::unwind(4)]
fn register_reactors_two_triggers() { register_reactors_kernel(false) }

//-------------------------------------------------------------------------------------------------------------------
// public trigger entry points down to the queued reactions (C14 / C01): entry -> deferred syscall -> schedule_* system
//-------------------------------------------------------------------------------------------------------------------
/// `ReactCommands::broadcast(event)` applied: exactly the registered listeners of THAT event type get one reaction each,
/// in registration order, sharing one data entity that holds the event's own payload; listeners of other event types and
/// reactors of other kinds get nothing.
#[kani::proof]
#[kani::stub(core::any::TypeId::of, crate::vh::stub_typeid_of)]
#[kani::stub(<core::any::TypeId as crate::vh::PEq>::eq, crate::vh::stub_typeid_eq)]
#[kani::unwind(4)]
fn entry_broadcast_reaches_exactly_its_listeners()
{
    let mut world = World::new();
    world.m_drop_table::<bevy::model::cell::LeakAll>();
    let mut cache = ReactCache::default();
    let l1 = SystemCommand(ent(41)); let l2 = SystemCommand(ent(42));
    crate::react::react_cache::verif_h::put_broadcast::<Ea>(&mut cache, ReactorHandle::Persistent(l1), ReactorHandle::Persistent(l2));
    world.insert_resource(cache);
    world.insert_resource(crate::ecs::auto_despawn::verif_h::mk_despawner());
    let mut captured: Vec<ReactionCommand> = Vec::with_capacity(4);
    world.m_capture(&mut captured);
    world.m_set_cmd_mode(CmdMode::Immediate);      // the deferred syscall closure is applied at once (its type cannot be named)
    let wp = &mut world as *mut World;
    let payload: u8 = kani::any();
    let other_type: bool = kani::any();
    {
        let mut rc = ReactCommands{ commands: cmds(wp) };
        if other_type { rc.broadcast(Eb(payload)); } else { rc.broadcast(Ea(payload)); }
    }
    if other_type
    {
        assert!(captured.len() == 0, "C01/C14: a broadcast of a type nobody listens to schedules nothing");
    }
    else
    {
        assert!(captured.len() == 2, "C14/C01: one trigger call = one dispatch = one reaction per listener of that type");
        match (&captured[0], &captured[1])
        {
            (ReactionCommand::BroadcastEvent{ data_entity: d0, reactor: r0 }, ReactionCommand::BroadcastEvent{ data_entity: d1, reactor: r1 }) =>
            {
                assert!(*r0 == l1 && *r1 == l2 && d0 == d1, "C01: registration order, one shared data entity");
                assert!(crate::react::event_readers::verif_h::broadcast_payload(world.get::<BroadcastEventData<Ea>>(*d0).unwrap()).0 == payload, "C03: the event own payload");
            }
            _ => panic!("C01: a broadcast schedules BroadcastEvent reactions only"),
        }
    }
    kani::cover!(other_type, "other type"); kani::cover!(!other_type, "listened type");
    std::mem::forget(captured); std::mem::forget(world);
}

pub struct Rr(pub u8);
impl ReactResource for Rr {}
pub struct Rs(pub u8);
impl ReactResource for Rs {}

/// `ReactCommands::entity_event(target, event)` applied: the target's own listener of that event type, then the type-wide
/// listener, one reaction each, carrying the target and the event's payload; an event of another type reaches nobody.
#[kani::proof]
#[kani::stub(core::any::TypeId::of, crate::vh::stub_typeid_of)]
#[kani::stub(<core::any::TypeId as crate::vh::PEq>::eq, crate::vh::stub_typeid_eq)]
#[kani::unwind(4)]
fn entry_entity_event_reaches_exactly_its_listeners()
{
    let mut world = World::new();
    world.m_drop_table::<bevy::model::cell::LeakAll>();
    let mut cache = ReactCache::default();
    let own = SystemCommand(ent(41)); let wide = SystemCommand(ent(42));
    crate::react::react_cache::verif_h::put_any_entity_event::<Ea>(&mut cache, ReactorHandle::Persistent(wide));
    world.insert_resource(cache);
    world.insert_resource(crate::ecs::auto_despawn::verif_h::mk_despawner());
    let mut table = EntityReactors::default();
    table.insert(EntityReactionType::Event(TypeId::of::<Ea>()), ReactorHandle::Persistent(own));
    let target = world.spawn(table).id();
    let mut captured: Vec<ReactionCommand> = Vec::with_capacity(4);
    world.m_capture(&mut captured);
    world.m_set_cmd_mode(CmdMode::Immediate);
    let wp = &mut world as *mut World;
    let payload: u8 = kani::any();
    let other_type: bool = kani::any();
    {
        let mut rc = ReactCommands{ commands: cmds(wp) };
        if other_type { rc.entity_event(target, Eb(payload)); } else { rc.entity_event(target, Ea(payload)); }
    }
    if other_type { assert!(captured.len() == 0, "C01/C14: an entity event of a type nobody listens to schedules nothing"); }
    else
    {
        assert!(captured.len() == 2, "C14/C01: one call = one dispatch = one reaction per matching listener");
        match (&captured[0], &captured[1])
        {
            (ReactionCommand::EntityEvent{ target: t0, data_entity: d0, reactor: r0 }, ReactionCommand::EntityEvent{ target: t1, data_entity: d1, reactor: r1 }) =>
            {
                assert!(*r0 == own && *r1 == wide && *t0 == target && *t1 == target && d0 == d1, "C01: the target's own listener first, then the type-wide one; both carry the target");
                let (t, p) = crate::react::event_readers::verif_h::entity_event_payload(world.get::<EntityEventData<Ea>>(*d0).unwrap());
                assert!(t == target && p.0 == payload, "C03: the event's own target and payload");
            }
            _ => panic!("C01: an entity event schedules EntityEvent reactions only"),
        }
    }
    kani::cover!(other_type, "other type"); kani::cover!(!other_type, "listened type");
    std::mem::forget(captured); std::mem::forget(world);
}

/// `ReactCommands::trigger_resource_mutation::<R>()` applied: exactly R's reactors, nothing for another resource type.
#[kani::proof]
#[kani::stub(core::any::TypeId::of, crate::vh::stub_typeid_of)]
#[kani::stub(<core::any::TypeId as crate::vh::PEq>::eq, crate::vh::stub_typeid_eq)]
#[kani::unwind(4)]
fn entry_resource_mutation_reaches_exactly_its_reactors()
{
    let mut world = World::new();
    world.m_drop_table::<bevy::model::cell::LeakAll>();
    let mut cache = ReactCache::default();
    let l1 = SystemCommand(ent(41));
    crate::react::react_cache::verif_h::put_resource::<Rr>(&mut cache, ReactorHandle::Persistent(l1));
    world.insert_resource(cache);
    world.insert_resource(crate::ecs::auto_despawn::verif_h::mk_despawner());
    let mut captured: Vec<ReactionCommand> = Vec::with_capacity(4);
    world.m_capture(&mut captured);
    world.m_set_cmd_mode(CmdMode::Immediate);
    let wp = &mut world as *mut World;
    let other_type: bool = kani::any();
    {
        let mut rc = ReactCommands{ commands: cmds(wp) };
        if other_type { rc.trigger_resource_mutation::<Rs>(); } else { rc.trigger_resource_mutation::<Rr>(); }
    }
    if other_type { assert!(captured.len() == 0, "C01/C14: a mutation of a resource nobody watches schedules nothing"); }
    else
    {
        assert!(captured.len() == 1 && matches!(&captured[0], ReactionCommand::Resource{ reactor } if *reactor == l1), "C14/C01: exactly one reaction per reactor of that resource type");
    }
    kani::cover!(other_type, "other type"); kani::cover!(!other_type, "watched type");
    std::mem::forget(captured); std::mem::forget(world);
}

/// `ReactCommands::insert(entity, component)` applied on a live entity without entity-scoped reactors: the component is on
/// the entity afterwards (wrapped, recording its owner) and exactly the type-wide INSERTION reactor of that component type is
/// scheduled, once - not the mutation reactor; on a dead id nothing at all happens.
#[kani::proof]
#[kani::stub(core::any::TypeId::of, crate::vh::stub_typeid_of)]
#[kani::stub(<core::any::TypeId as crate::vh::PEq>::eq, crate::vh::stub_typeid_eq)]
#[kani::unwind(4)]
fn entry_insert_live_entity() { entry_insert_kernel(false) }
#[kani::proof]
#[kani::stub(core::any::TypeId::of, crate::vh::stub_typeid_of)]
#[kani::stub(<core::any::TypeId as crate::vh::PEq>::eq, crate::vh::stub_typeid_eq)]
#[kani::unwind(4)]
fn entry_insert_dead_entity() { entry_insert_kernel(true) }
fn entry_insert_kernel(dead: bool)
{
    let mut world = World::new();
    world.m_drop_table::<bevy::model::cell::LeakAll>();
    let mut cache = ReactCache::default();
    let on_insert = SystemCommand(ent(41)); let on_mutate = SystemCommand(ent(42));
    crate::react::react_cache::verif_h::put_component_one_each::<Ka>(&mut cache, ReactorHandle::Persistent(on_insert), ReactorHandle::Persistent(on_mutate));
    world.insert_resource(cache);
    world.insert_resource(crate::ecs::auto_despawn::verif_h::mk_despawner());
    let live = world.spawn_empty().id();
    let target = if dead { Entity::m_new(live.index(), live.generation() + 1) } else { live };
    let mut captured: Vec<ReactionCommand> = Vec::with_capacity(4);
    world.m_capture(&mut captured);
    world.m_set_cmd_mode(CmdMode::Immediate);
    let wp = &mut world as *mut World;
    let v: u8 = kani::any();
    { let mut rc = ReactCommands{ commands: cmds(wp) }; rc.insert(target, Ka(v)); }
    if dead
    {
        assert!(captured.len() == 0 && !world.m_has::<React<Ka>>(live), "C14/C18: inserting on an entity that does not exist inserts nothing and triggers nothing");
    }
    else
    {
        let c = world.get::<React<Ka>>(live);
        assert!(c.map(|c| c.entity == live && c.component.0 == v).unwrap_or(false), "C14: the component is on the entity, recording its owner");
        assert!(captured.len() == 1, "C14/C01: exactly one insertion trigger = one reaction per insertion reactor; mutation reactors are not triggered");
        assert!(matches!(&captured[0], ReactionCommand::EntityReaction{ reaction_source, reaction_type: EntityReactionType::Insertion(_), reactor } if *reaction_source == live && *reactor == on_insert),
            "C01/C03: the insertion reactor, with the entity as source");
    }
    kani::cover!(true, "end of harness reached");
    std::mem::forget(captured); std::mem::forget(world);
}

/// C15 / C07: the registration that `once()` queues is REF-COUNTED (revokable mode): once it is applied, every trigger's
/// table entry holds an auto-despawn handle of the wrapper's entity - which is what lets a one-off reactor that never runs
/// (revoked before firing, empty bundle, trigger entity gone) vanish - and the reactor is not released while they exist.
#[kani::proof]
#[kani::stub(core::any::TypeId::of, crate::vh::stub_typeid_of)]
#[kani::stub(<core::any::TypeId as crate::vh::PEq>::eq, crate::vh::stub_typeid_eq)]
#[kani::unwind(4)]
fn once_registration_is_refcounted()
{
    let mut world = World::new();
    world.m_apply_via_fn_pointer();
    world.m_drop_table::<bevy::model::cell::LeakAll>();
    world.insert_resource(ReactCache::default());
    world.insert_resource(crate::ecs::auto_despawn::verif_h::mk_despawner());
    world.insert_resource(OnceLog(0));
    let wp = &mut world as *mut World;
    let token =
    {
        let mut rc = ReactCommands{ commands: cmds(wp) };
        rc.once(broadcast::<Ea>(), |mut log: bevy::ecs::system::ResMut<OnceLog>| { log.0 += 1; })
    };
    let reactor = token.id;
    world.flush();      // registration and storage insert are applied
    assert!(world.m_alive(*reactor), "the wrapper's entity exists");
    let cache = world.resource::<ReactCache>();
    assert!(crate::react::react_cache::verif_h::broadcast_entries::<Ea>(cache) == 1 && crate::react::react_cache::verif_h::broadcast_first::<Ea>(cache) == Some(reactor),
        "C15/C01: the one-off reactor is registered for its trigger, once");
    assert!(crate::react::react_cache::verif_h::broadcast_first_is_refcounted::<Ea>(cache), "C15/C07: with a ref-counted handle (a persistent one would let a never-run one-off reactor live forever)");
    assert!(world.resource::<AutoDespawner>().try_recv().is_none(), "C07: not released while its trigger is registered");
    assert!(world.resource::<OnceLog>().0 == 0, "C15: registering does not run it");
    kani::cover!(true, "end of harness reached");
    std::mem::forget(world); std::mem::forget(token);
}

/// recorder standing in for `register_reactors` (what it does with a mode is decided by register.* and mode.*)
pub static mut REGISTERED_MODE: u8 = 0x5E;
pub static mut REGISTERED_FOR: (u32, u32) = (0x5EED, 0);
pub fn record_register<T: ReactionTriggerBundle>(In((_triggers, syscommand, mode)): In<(T, SystemCommand, ReactorMode)>, _commands: Commands, _despawner: Res<AutoDespawner>)
{
    unsafe
    {
        REGISTERED_MODE = match mode { ReactorMode::Persistent => 1, ReactorMode::Cleanup => 2, ReactorMode::Revokable => 3 };
        REGISTERED_FOR = (syscommand.index(), syscommand.generation());
    }
}

/// C15 / C07: `once()` registers its triggers in a REF-COUNTED mode for the wrapper's own entity (revokable), so that a
/// one-off reactor that never gets to run - revoked before firing, empty bundle, trigger entity gone - is still collected.
#[kani::proof]
#[kani::stub(core::any::TypeId::of, crate::vh::stub_typeid_of)]
#[kani::stub(<core::any::TypeId as crate::vh::PEq>::eq, crate::vh::stub_typeid_eq)]
#[kani::stub(register_reactors, record_register)]
#[kani::unwind(4)]
fn once_registers_in_a_refcounted_mode()
{
    let mut world = World::new();
    world.m_drop_table::<bevy::model::cell::LeakAll>();
    world.insert_resource(ReactCache::default());
    world.insert_resource(crate::ecs::auto_despawn::verif_h::mk_despawner());
    world.m_set_cmd_mode(CmdMode::Immediate);      // the deferred registration closure is applied at once (its type cannot be named)
    let wp = &mut world as *mut World;
    let token =
    {
        let mut rc = ReactCommands{ commands: cmds(wp) };
        rc.once(broadcast::<Ea>(), || {})
    };
    assert!(unsafe { REGISTERED_MODE } == 3 || unsafe { REGISTERED_MODE } == 2, "C15/C07: a one-off reactor is registered with a ref-counted handle (a persistent one would let a never-run reactor live forever)");
    assert!(unsafe { REGISTERED_FOR } == (token.id.index(), token.id.generation()), "C15: for the wrapper's own entity");
    kani::cover!(true, "end of harness reached");
    std::mem::forget(world); std::mem::forget(token);
}

// ---- entry points joined with a RECORDED dispatch (C14): which dispatch a public trigger call ends in, how often, with what ----
/// one record per dispatch call: (dispatch kind, the type parameter is the expected one, entity index, entity generation, payload)
/// kinds: 0 entity event, 1 insertion, 2 mutation
pub static mut DISPATCH_N: usize = 0x5EED_0F00;
pub static mut DISPATCHED: [(u8, bool, u32, u32, u8); 4] = [(9, false, 0x5EED, 0, 0); 4];
pub fn dispatched() -> usize { unsafe { DISPATCH_N - 0x5EED_0F00 } }
fn dispatch_rec(rec: (u8, bool, u32, u32, u8)) { unsafe { let n = dispatched(); if n < 4 { DISPATCHED[n] = rec; } DISPATCH_N += 1; } }
pub fn rec_sched_entity_event<E: Send + Sync + 'static>(In((target, event)): In<(Entity, E)>, _c: Commands, _cache: Res<ReactCache>, _q: Query<&EntityReactors>)
{
    let is_ea = TypeId::of::<E>() == TypeId::of::<Ea>();
    let payload = if is_ea { unsafe { (*(&event as *const E as *const Ea)).0 } } else { 0 };
    dispatch_rec((0, is_ea, target.index(), target.generation(), payload));
    std::mem::forget(event);
}
pub fn rec_sched_insertion<C: ReactComponent>(In(entity): In<Entity>, _cache: ResMut<ReactCache>, _c: Commands, _q: Query<&EntityReactors>)
{ dispatch_rec((1, TypeId::of::<C>() == TypeId::of::<Ka>(), entity.index(), entity.generation(), 0)); }
pub fn rec_sched_mutation<C: ReactComponent>(In(entity): In<Entity>, _cache: ResMut<ReactCache>, _c: Commands, _q: Query<&EntityReactors>)
{ dispatch_rec((2, TypeId::of::<C>() == TypeId::of::<Ka>(), entity.index(), entity.generation(), 0)); }

fn entry_world() -> World
{
    let mut world = World::new();
    world.m_drop_table::<bevy::model::cell::LeakAll>();
    world.insert_resource(ReactCache::default());
    world.insert_resource(crate::ecs::auto_despawn::verif_h::mk_despawner());
    world.m_set_cmd_mode(CmdMode::Immediate);      // the deferred syscall closure is applied at once (its type cannot be named)
    world
}

/// C14: `ReactCommands::entity_event(target, event)` ends in exactly ONE entity-event dispatch of that event type, carrying
/// exactly that target (index and generation - also for a stale id: dropping it is the dispatch's business, C18) and that
/// payload; no other dispatch.  The dispatch itself is a recorder (decided by rc.entity_event_*).
#[kani::proof]
#[kani::stub(core::any::TypeId::of, crate::vh::stub_typeid_of)]
#[kani::stub(<core::any::TypeId as crate::vh::PEq>::eq, crate::vh::stub_typeid_eq)]
#[kani::stub(ReactCache::schedule_entity_event_reaction, rec_sched_entity_event)]
#[kani::stub(ReactCache::schedule_insertion_reaction, rec_sched_insertion)]
#[kani::stub(ReactCache::schedule_mutation_reaction, rec_sched_mutation)]
#[kani::unwind(4)]
fn entry_entity_event_one_dispatch()
{
    let mut world = entry_world();
    let live = world.spawn_empty().id();
    let stale: bool = kani::any();
    let target = if stale { Entity::m_new(live.index(), live.generation() + 1) } else { live };
    let payload: u8 = kani::any();
    let wp = &mut world as *mut World;
    { let mut rc = ReactCommands{ commands: cmds(wp) }; rc.entity_event(target, Ea(payload)); }
    assert!(dispatched() == 1, "C14: one entity_event call = exactly one dispatch");
    let r = unsafe { DISPATCHED[0] };
    assert!(r == (0, true, target.index(), target.generation(), payload), "C14/C03: the entity-event dispatch of THAT event type, with that target and that payload");
    assert!(world.m_queue.is_empty(), "C14: nothing else is left queued");
    kani::cover!(stale, "stale id"); kani::cover!(!stale, "live entity");
    std::mem::forget(world);
}

/// C14: `ReactCommands::insert(entity, component)` on a live entity: the component is on the entity (wrapped, recording
/// its owner) BEFORE the insertion dispatch runs, and exactly one INSERTION dispatch for that component type and that
/// entity follows - no mutation dispatch; on an id that does not exist: nothing is inserted and nothing is dispatched.
#[kani::proof]
#[kani::stub(core::any::TypeId::of, crate::vh::stub_typeid_of)]
#[kani::stub(<core::any::TypeId as crate::vh::PEq>::eq, crate::vh::stub_typeid_eq)]
#[kani::stub(ReactCache::schedule_entity_event_reaction, rec_sched_entity_event)]
#[kani::stub(ReactCache::schedule_insertion_reaction, rec_sched_insertion)]
#[kani::stub(ReactCache::schedule_mutation_reaction, rec_sched_mutation)]
#[kani::unwind(4)]
fn entry_insert_one_dispatch()
{
    let mut world = entry_world();
    let live = world.spawn_empty().id();
    let stale: bool = kani::any();
    let target = if stale { Entity::m_new(live.index(), live.generation() + 1) } else { live };
    let v: u8 = kani::any();
    let wp = &mut world as *mut World;
    { let mut rc = ReactCommands{ commands: cmds(wp) }; rc.insert(target, Ka(v)); }
    if stale
    {
        assert!(dispatched() == 0 && !world.m_has::<React<Ka>>(live), "C14/C18: inserting on an entity that does not exist inserts nothing and dispatches nothing");
    }
    else
    {
        assert!(dispatched() == 1, "C14: one insert call = exactly one dispatch");
        let r = unsafe { DISPATCHED[0] };
        assert!(r == (1, true, live.index(), live.generation(), 0), "C14: the INSERTION dispatch of that component type for that entity (not the mutation dispatch)");
        let c = world.get::<React<Ka>>(live);
        assert!(c.map(|c| c.entity == live && c.component.0 == v).unwrap_or(false), "C14: the component is on the entity, recording its owner");
    }
    assert!(world.m_queue.is_empty());
    kani::cover!(stale, "stale id"); kani::cover!(!stale, "live entity");
    std::mem::forget(world);
}

/// C14: the reactive accessors of `React<C>` end in the MUTATION dispatch of that component type for the component's own
/// entity: `get_mut` once per call, `set_if_neq` once iff the value differs (all old/new pairs), reads never.
#[kani::proof]
#[kani::stub(core::any::TypeId::of, crate::vh::stub_typeid_of)]
#[kani::stub(<core::any::TypeId as crate::vh::PEq>::eq, crate::vh::stub_typeid_eq)]
#[kani::stub(ReactCache::schedule_entity_event_reaction, rec_sched_entity_event)]
#[kani::stub(ReactCache::schedule_insertion_reaction, rec_sched_insertion)]
#[kani::stub(ReactCache::schedule_mutation_reaction, rec_sched_mutation)]
#[kani::unwind(4)]
fn entry_mutation_accessors_one_dispatch()
{
    let mut world = entry_world();
    let owner = world.spawn_empty().id();
    let old: u8 = kani::any();
    let new: u8 = kani::any();
    let mut r = React{ entity: owner, component: Kc(old) };
    let wp = &mut world as *mut World;
    let mut c = cmds(wp);
    let _ = r.get(); let _ = r.get_noreact();
    assert!(dispatched() == 0, "C14: reads never dispatch");
    let res = r.set_if_neq(&mut c, Kc(new));
    let n1 = if new == old { 0 } else { 1 };
    assert!(dispatched() == n1 && res.is_some() == (new != old), "C14: set_if_neq dispatches once iff the value differs");
    r.get_mut(&mut c).0 = 7;
    assert!(dispatched() == n1 + 1, "C14: get_mut dispatches exactly once per call");
    let mut i = 0;
    while i < n1 + 1
    {
        let d = unsafe { DISPATCHED[i] };
        assert!(d.0 == 2 && d.2 == owner.index() && d.3 == owner.generation(), "C14: the MUTATION dispatch, for the component's own entity");
        i += 1;
    }
    kani::cover!(new == old, "equal"); kani::cover!(new != old, "different");
    std::mem::forget(world);
}
#[derive(PartialEq)]
pub struct Kc(pub u8);
impl ReactComponent for Kc {}
