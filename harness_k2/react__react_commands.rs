// K2 harnesses over the real src/react/react_commands.rs.
use bevy::ecs::system::{Res, ResMut};
use core::any::TypeId;
use bevy::world::CmdMode;
use std::sync::Arc;
pub struct Ea(pub u8);
pub struct Eb(pub u8);
pub struct Ka(pub u8);
impl ReactComponent for Ka {}

/// C06 / C07 / C18: `revoke_reactor` walks the WHOLE token: an entity-scoped trigger whose entity is gone is
/// skipped, every other trigger named by the token is still revoked; triggers not named survive.
fn revoke_reactor_routes_every_trigger(dead: bool)
{
    let mut world = World::new();
    let mut cache = ReactCache::default();
    let me = SystemCommand(ent(41));
    let neighbour = SystemCommand(ent(42));
    // type-wide: [me, neighbour] on broadcast Ea; entity-scoped: target carries (Mutation Ka, me), (Mutation Ka, neighbour), (Insertion Ka, me)
    crate::react::react_cache::verif_h::put_broadcast::<Ea>(&mut cache, ReactorHandle::Persistent(me), ReactorHandle::Persistent(neighbour));
    let mut table = EntityReactors::default();
    let mut_k = EntityReactionType::Mutation(TypeId::of::<Ka>());
    let ins_k = EntityReactionType::Insertion(TypeId::of::<Ka>());
    table.insert(mut_k, ReactorHandle::Persistent(me));
    table.insert(ins_k, ReactorHandle::Persistent(me));
    let live = world.spawn(table).id();
    // a despawned entity is named by a stale id (same index, older generation): every lookup fails like for a dead entity
    let target = if dead { Entity::m_new(live.index(), live.generation() + 1) } else { live };

    let token = RevokeToken{
        reactors: Arc::from(vec![ReactorType::EntityMutation(target, TypeId::of::<Ka>()), ReactorType::Broadcast(TypeId::of::<Ea>())].as_slice()),
        id: me,
    };
    let wp = &mut world as *mut World;
    revoke_reactor(In(token), ResMut::m_new(&mut cache), qry(wp));

    assert!(crate::react::react_cache::verif_h::broadcast_entries::<Ea>(&cache) == 1
        && crate::react::react_cache::verif_h::broadcast_first::<Ea>(&cache) == Some(neighbour),
        "C06/C18: the type-wide trigger named after a dead entity's trigger is still revoked; the neighbour stays");
    if !dead
    {
        let t = world.get::<EntityReactors>(target).unwrap();
        assert!(t.count(mut_k) == 0, "C06: the named entity trigger of this reactor is revoked");
        assert!(t.count(ins_k) == 1, "C06: a trigger of the same reactor that the token does not name keeps working");
    }
    kani::cover!(true, "end reached");
    std::mem::forget(world); std::mem::forget(cache);
}
#[kani::proof]
#[kani::stub(core::any::TypeId::of, crate::vh::stub_typeid_of)]
#[kani::stub(<core::any::TypeId as crate::vh::PEq>::eq, crate::vh::stub_typeid_eq)]
#[kani::unwind(4)]
fn revoke_routing_dead_entity_first() { revoke_reactor_routes_every_trigger(true) }
#[kani::proof]
#[kani::stub(core::any::TypeId::of, crate::vh::stub_typeid_of)]
#[kani::stub(<core::any::TypeId as crate::vh::PEq>::eq, crate::vh::stub_typeid_eq)]
#[kani::unwind(4)]
fn revoke_routing_live_entity() { revoke_reactor_routes_every_trigger(false) }

/// C07: the handle kind follows the mode, and the handle names exactly the given system command.
fn reactor_mode_prepare(m: u8)
{
    let despawner = crate::ecs::auto_despawn::verif_h::mk_despawner();
    let sys = SystemCommand(ent(any_below(50) as u32));
    let mode = match m { 0 => ReactorMode::Persistent, 1 => ReactorMode::Cleanup, _ => ReactorMode::Revokable };
    let h = mode.prepare(&despawner, sys);
    assert!(h.sys_command() == sys);
    let persistent = matches!(h, ReactorHandle::Persistent(_));
    assert!(persistent == (mode == ReactorMode::Persistent), "C07: persistent mode => plain handle; cleanup/revokable => ref-counted handle");
    let c = h.clone();
    drop(h);
    assert!(despawner.try_recv().is_none(), "C07: nothing is collected while a clone of the handle exists");
    drop(c);
    if persistent { assert!(despawner.try_recv().is_none(), "C07: a persistent reactor is never sent to the collector"); }
    else { assert!(despawner.try_recv() == Some(*sys) && despawner.try_recv().is_none(), "C07: collected exactly once after the last handle is dropped"); }
    kani::cover!(true, "end of harness reached");
}
#[kani::proof]
#[kani::stub(core::any::TypeId::of, crate::vh::stub_typeid_of)]
#[kani::stub(<core::any::TypeId as crate::vh::PEq>::eq, crate::vh::stub_typeid_eq)]
#[kani::unwind(4)]
fn mode_prepare_persistent() { reactor_mode_prepare(0) }
#[kani::proof]
#[kani::stub(core::any::TypeId::of, crate::vh::stub_typeid_of)]
#[kani::stub(<core::any::TypeId as crate::vh::PEq>::eq, crate::vh::stub_typeid_eq)]
#[kani::unwind(4)]
fn mode_prepare_cleanup() { reactor_mode_prepare(1) }
#[kani::proof]
#[kani::stub(core::any::TypeId::of, crate::vh::stub_typeid_of)]
#[kani::stub(<core::any::TypeId as crate::vh::PEq>::eq, crate::vh::stub_typeid_eq)]
#[kani::unwind(4)]
fn mode_prepare_revokable() { reactor_mode_prepare(2) }

/// C14 / C18: `ReactCommands::insert` queues the insertion and its reaction trigger iff the entity exists when the
/// call is made (nothing at all for a dead id); the queued insertion is a `try_insert` of `React{entity, component}`.
#[kani::proof]
#[kani::stub(core::any::TypeId::of, crate::vh::stub_typeid_of)]
#[kani::stub(<core::any::TypeId as crate::vh::PEq>::eq, crate::vh::stub_typeid_eq)]
#[kani::unwind(4)]
fn react_commands_insert_only_on_existing_entity()
{
    let mut world = World::new();
    let live = world.spawn_empty().id();
    let dead: bool = kani::any();
    let target = if dead { Entity::m_new(live.index(), live.generation() + 1) } else { live };
    let mut captured: Vec<bevy::world::InsertCommand<React<Ka>>> = Vec::with_capacity(2);
    world.m_capture(&mut captured);
    let wp = &mut world as *mut World;
    let mut rc = ReactCommands{ commands: cmds(wp) };
    let v: u8 = kani::any();
    rc.insert(target, Ka(v));
    if dead
    {
        assert!(world.m_queued() == 0 && captured.len() == 0, "C14/C18: inserting on an entity that does not exist triggers nothing and queues nothing");
    }
    else
    {
        assert!(world.m_queued() == 2 && captured.len() == 1, "C14: one insertion + exactly one insertion trigger");
        assert!(captured[0].entity == live && captured[0].try_ && captured[0].bundle.entity == live && captured[0].bundle.component.0 == v,
            "C14/C18: the component is inserted with try_insert (harmless if the entity dies meanwhile) and records its owner");
    }
    kani::cover!(dead, "dead id");
    kani::cover!(!dead, "live entity");
    std::mem::forget(captured); std::mem::forget(world);
}
