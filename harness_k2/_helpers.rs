// Shared helpers for harness fragments (compiled only under cfg(kani)).
use bevy::prelude::Entity;

/// A concrete entity id (generation 1) for index `i`.
pub fn ent(i: u32) -> Entity { Entity::from_raw(i) }

/// A symbolic value in `0..n`.
pub fn any_below(n: u8) -> u8
{
    let x: u8 = kani::any();
    kani::assume(x < n);
    x
}

// ---- TypeId made cheap for CBMC (`-Z stubbing`; every K2 harness carries both stub attributes) -------------
// `TypeId` is an array of pointers whose `==` transmutes both sides to `u128`; CBMC cannot fold that, so every
// map lookup keyed by a `TypeId` became a symbolic branch and table shapes multiplied (2^k after k inserts).
// Under the stubs a `TypeId` holds the address of a per-type function and `==` compares that address, which CBMC
// decides during symbolic execution.  Contract kept: `of::<T>() == of::<U>()` iff `T` and `U` are the same type.
pub fn tid_marker<T: 'static + ?Sized>() -> &'static str { core::any::type_name::<T>() }
pub fn stub_typeid_of<T: 'static + ?Sized>() -> core::any::TypeId
{
    let data: [*const (); 2] = [tid_marker::<T> as *const (), core::ptr::null()];
    unsafe { core::mem::transmute::<[*const (); 2], core::any::TypeId>(data) }
}
pub fn stub_typeid_eq(a: &core::any::TypeId, b: &core::any::TypeId) -> bool
{
    let pa = a as *const core::any::TypeId as *const *const ();
    let pb = b as *const core::any::TypeId as *const *const ();
    unsafe { *pa == *pb }
}
pub use core::cmp::PartialEq as PEq;
