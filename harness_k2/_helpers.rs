// Shared helpers for harness fragments (compiled only under cfg(kani)).
use bevy::prelude::Entity;

/// A concrete entity id (generation 1) for index `i`.
pub fn ent(i: u32) -> Entity { Entity::from_raw(i) }

/// A symbolic value in `0..n`.
pub fn any_below(n: u8) -> u8
{
    let x: u8 = kani::any();
    kani::assume(x < n);
    x
}

use bevy::prelude::{World, Commands, Query};
use bevy::ecs::query::{QueryData, QueryFilter};

/// `Commands` writing into the world's own queue, not tied to a borrow of `world` (model-internal raw pointers)
pub fn cmds(wp: *mut World) -> Commands<'static, 'static> { unsafe { (*wp).commands() } }
/// a `Query` over the world, not tied to a borrow
pub fn qry<D: QueryData, F: QueryFilter>(wp: *mut World) -> Query<'static, 'static, D, F> { Query::m_new(wp) }

// ---- TypeId made cheap for CBMC (`-Z stubbing`) -------------------------------------------------------------
// `TypeId` is an array of pointers whose `==` transmutes both sides to `u128`; on values loaded from the heap
// that pointer->integer conversion is very expensive for CBMC.  Under the stubs a `TypeId` holds the address of a
// per-type function and `==` compares that address as a pointer.  Contract kept: `of::<T>() == of::<U>()` iff `T`
// and `U` are the same type.
pub fn tid_marker<T: 'static + ?Sized>() -> &'static str { core::any::type_name::<T>() }
pub fn stub_typeid_of<T: 'static + ?Sized>() -> core::any::TypeId
{
    let data: [*const (); 2] = [tid_marker::<T> as *const (), core::ptr::null()];
    unsafe { core::mem::transmute::<[*const (); 2], core::any::TypeId>(data) }
}
pub fn stub_typeid_eq(a: &core::any::TypeId, b: &core::any::TypeId) -> bool
{
    let pa = a as *const core::any::TypeId as *const *const ();
    let pb = b as *const core::any::TypeId as *const *const ();
    unsafe { *pa == *pb }
}
pub use core::cmp::PartialEq as PEq;
