// K2 harnesses over the real src/react/reaction_trigger.rs.
use core::any::TypeId;
pub struct Ta(pub u8);
pub struct Tr(pub u8);
impl ReactResource for Tr {}

/// C06: a token names every trigger of the bundle, one entry per bundle member IN ORDER - duplicates included
/// (registration stores one handle per member, so a token that named a duplicated trigger once would leave a
/// registration behind after the revoke).
#[kani::proof]
#[kani::stub(core::any::TypeId::of, crate::vh::stub_typeid_of)]
#[kani::stub(<core::any::TypeId as crate::vh::PEq>::eq, crate::vh::stub_typeid_eq)]
#[kani::unwind(7)]
fn token_names_every_bundle_member()
{
    let sys = SystemCommand(ent(any_below(50) as u32));
    let e = ent(7);
    let token = RevokeToken::new_from(sys, (broadcast::<Ta>(), resource_mutation::<Tr>(), broadcast::<Ta>(), (despawn(e), broadcast::<Ta>())));
    assert!(token.id == sys);
    assert!(token.reactors.len() == 5, "C06: one token entry per bundle member, duplicates included");
    assert!(token.reactors[0] == ReactorType::Broadcast(TypeId::of::<Ta>()));
    assert!(token.reactors[1] == ReactorType::ResourceMutation(TypeId::of::<Tr>()));
    assert!(token.reactors[2] == ReactorType::Broadcast(TypeId::of::<Ta>()));
    assert!(token.reactors[3] == ReactorType::Despawn(e));
    assert!(token.reactors[4] == ReactorType::Broadcast(TypeId::of::<Ta>()));
    let empty = RevokeToken::new_from(sys, ());
    assert!(empty.reactors.len() == 0, "C07/C15: an empty bundle yields an empty token");
    kani::cover!(true, "end of harness reached");
}

/// C06 / C15, minimal form (two members): a bundle that repeats one trigger yields a token with one entry PER MEMBER.
#[kani::proof]
#[kani::stub(core::any::TypeId::of, crate::vh::stub_typeid_of)]
#[kani::stub(<core::any::TypeId as crate::vh::PEq>::eq, crate::vh::stub_typeid_eq)]
#[kani::unwind(4)]
fn token_keeps_duplicate_member()
{
    let sys = SystemCommand(ent(3));
    let token = RevokeToken::new_from(sys, (broadcast::<Ta>(), broadcast::<Ta>()));
    assert!(token.reactors.len() == 2, "C06/C15: a repeated trigger is registered twice, so the token must name it twice");
    assert!(matches!(token.reactors[0], ReactorType::Broadcast(_)) && matches!(token.reactors[1], ReactorType::Broadcast(_)));
    kani::cover!(true, "end of harness reached");
}

/// diagnostic (not registered): cost of `Vec<ReactorType>::contains` (derived PartialEq over 11 variants on heap data)
#[kani::proof]
#[kani::stub(core::any::TypeId::of, crate::vh::stub_typeid_of)]
#[kani::stub(<core::any::TypeId as crate::vh::PEq>::eq, crate::vh::stub_typeid_eq)]
#[kani::unwind(4)]
fn diag_reactor_type_contains()
{
    let mut v: Vec<ReactorType> = Vec::with_capacity(2);
    v.push(ReactorType::Broadcast(TypeId::of::<Ta>()));
    let b = ReactorType::Broadcast(TypeId::of::<Ta>());
    assert!(v.contains(&b));
    let c = ReactorType::ResourceMutation(TypeId::of::<Tr>());
    assert!(!v.contains(&c));
    kani::cover!(true, "end");
}

/// C06 / C15: `get_reactor_types` (what a token is built from) lists one entry per bundle member, repeated triggers
/// included, in order - decided on the function itself, without the `Arc<[..]>` the token wraps it in.
#[kani::proof]
#[kani::stub(core::any::TypeId::of, crate::vh::stub_typeid_of)]
#[kani::stub(<core::any::TypeId as crate::vh::PEq>::eq, crate::vh::stub_typeid_eq)]
#[kani::unwind(5)]
fn reactor_types_keep_duplicates()
{
    let e = ent(7);
    let v = get_reactor_types((broadcast::<Ta>(), resource_mutation::<Tr>(), broadcast::<Ta>()));
    assert!(v.len() == 3, "C06/C15: one entry per bundle member - a repeated trigger is registered twice, so it must be listed twice");
    assert!(matches!(v[0], ReactorType::Broadcast(_)) && matches!(v[1], ReactorType::ResourceMutation(_)) && matches!(v[2], ReactorType::Broadcast(_)), "in bundle order");
    let w = get_reactor_types((despawn(e), despawn(e)));
    assert!(w.len() == 2, "C06/C15: also for entity-keyed triggers");
    kani::cover!(true, "end of harness reached");
    std::mem::forget(v); std::mem::forget(w);
}
