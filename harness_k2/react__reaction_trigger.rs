// K2 harnesses over the real src/react/reaction_trigger.rs.
use core::any::TypeId;
pub struct Ta(pub u8);
pub struct Tr(pub u8);
impl ReactResource for Tr {}

/// C06: a token names every trigger of the bundle, one entry per bundle member IN ORDER - duplicates included
/// (registration stores one handle per member, so a token that named a duplicated trigger once would leave a
/// registration behind after the revoke).
#[kani::proof]
#[kani::stub(core::any::TypeId::of, crate::vh::stub_typeid_of)]
#[kani::stub(<core::any::TypeId as crate::vh::PEq>::eq, crate::vh::stub_typeid_eq)]
#[kani::unwind(7)]
fn token_names_every_bundle_member()
{
    let sys = SystemCommand(ent(any_below(50) as u32));
    let e = ent(7);
    let token = RevokeToken::new_from(sys, (broadcast::<Ta>(), resource_mutation::<Tr>(), broadcast::<Ta>(), (despawn(e), broadcast::<Ta>())));
    assert!(token.id == sys);
    assert!(token.reactors.len() == 5, "C06: one token entry per bundle member, duplicates included");
    assert!(token.reactors[0] == ReactorType::Broadcast(TypeId::of::<Ta>()));
    assert!(token.reactors[1] == ReactorType::ResourceMutation(TypeId::of::<Tr>()));
    assert!(token.reactors[2] == ReactorType::Broadcast(TypeId::of::<Ta>()));
    assert!(token.reactors[3] == ReactorType::Despawn(e));
    assert!(token.reactors[4] == ReactorType::Broadcast(TypeId::of::<Ta>()));
    let empty = RevokeToken::new_from(sys, ());
    assert!(empty.reactors.len() == 0, "C07/C15: an empty bundle yields an empty token");
    kani::cover!(true, "end of harness reached");
}

/// C06 / C15, minimal form (two members): a bundle that repeats one trigger yields a token with one entry PER MEMBER.
#[kani::proof]
#[kani::stub(core::any::TypeId::of, crate::vh::stub_typeid_of)]
#[kani::stub(<core::any::TypeId as crate::vh::PEq>::eq, crate::vh::stub_typeid_eq)]
#[kani::unwind(4)]
fn token_keeps_duplicate_member()
{
    let sys = SystemCommand(ent(3));
    let token = RevokeToken::new_from(sys, (broadcast::<Ta>(), broadcast::<Ta>()));
    assert!(token.reactors.len() == 2, "C06/C15: a repeated trigger is registered twice, so the token must name it twice");
    assert!(matches!(token.reactors[0], ReactorType::Broadcast(_)) && matches!(token.reactors[1], ReactorType::Broadcast(_)));
    kani::cover!(true, "end of harness reached");
}
