// K2 harnesses over the real src/react/syscommand_runner.rs: the recursive runner itself, driven on the environment
// model with harness-defined callbacks.  Indirect calls (`setup` fn pointer, `cleanup` fn pointer, the boxed callback)
// are restricted per call site by goto-instrument (`--restrict-function-pointer`), which also asserts the restriction.
use bevy::ecs::system::Resource;
use bevy::world::CmdMode;

/// run log: `entries[..len]` = ids of the callbacks that ran, in order
pub struct Log { pub entries: [u8; 12], pub len: usize }
impl Resource for Log {}
impl Log
{
    pub fn new() -> Self { Log{ entries: [0; 12], len: 0 } }
    pub fn push(&mut self, x: u8) { if self.len >= 12 { panic!("log full"); } self.entries[self.len] = x; self.len += 1; }
    pub fn count(&self, x: u8) -> usize { let mut n = 0; bevy::m_unrolled!(i in [0, 1, 2, 3, 4, 5, 6, 7, 8, 9, 10, 11] { if i < self.len && self.entries[i] == x { n += 1; } }); n }
}

/// the world as `ReactPlugin` leaves it (resources only; the scheduler is not modelled)
pub fn mk_world() -> World
{
    let mut world = World::new();
    world.insert_resource(ReactCache::default());
    world.insert_resource(crate::ecs::auto_despawn::verif_h::mk_despawner());
    world.insert_resource(SyscommandCounter::default());
    world.insert_resource(CobwebCommandQueue::<BufferedSyscommand>::default());
    world.insert_resource(SystemEventAccessTracker::default());
    world.insert_resource(EntityReactionAccessTracker::default());
    world.insert_resource(EventAccessTracker::default());
    world.insert_resource(DespawnAccessTracker::default());
    world.insert_resource(Log::new());
    world.insert_resource(KeepFn(fp_never));
    world
}

pub fn counter(world: &World) -> usize { **world.resource::<SyscommandCounter>() }
pub fn has_callback(world: &World, s: SystemCommand) -> bool
{
    match world.get::<SystemCommandStorage>(*s) { Some(st) => crate::react::system_command_spawning::verif_h::storage_has_callback(st), None => false }
}

pub fn stub_noop(_: &mut World) {}
/// stands in for `despawn_recursive` inside the runner's error path "system command component is missing on insert"
/// (a system that removed its own storage component): the path is flagged, not modelled; every harness asserts the
/// flag is still clear, i.e. the claim excludes that error path instead of silently skipping it.
pub static mut LOST_SYSTEM_PATH: u32 = 0x5EED_0700;
pub fn stub_despawn_recursive_flag<'w>(_e: bevy::world::EntityWorldMut<'w>) where 'w: 'w { unsafe { LOST_SYSTEM_PATH += 1; } }
pub fn lost_system_path_taken() -> bool { unsafe { LOST_SYSTEM_PATH != 0x5EED_0700 } }
/// fallback target for the restricted `cleanup` call site in harnesses where no real cleanup function is reachable
pub fn fp_never(_: &mut World) { panic!("a cleanup function pointer outside the restriction was called") }
pub struct KeepFn(pub fn(&mut World));
impl Resource for KeepFn {}

//-------------------------------------------------------------------------------------------------------------------
// step obligations: symbolic pre-state + ONE call of the real runner (nested calls only reach log-only systems)
//-------------------------------------------------------------------------------------------------------------------

/// a system command whose callback logs `id`, runs the cleanup it is handed, and does nothing else
/// (ONE closure type for every system of a harness: the boxed-callback call site has a single candidate)
pub fn logger(world: &mut World, id: u8) -> SystemCommand
{
    spawn_system_command_from(world, SystemCommandCallback::with(move |w: &mut World, cleanup: SystemCommandCleanup| {
        w.resource_mut::<Log>().push(id); cleanup.run(w);
    }))
}
pub fn setup_1(w: &mut World, _: SystemCommand) { w.resource_mut::<Log>().push(11); }
pub fn setup_2(w: &mut World, _: SystemCommand) { w.resource_mut::<Log>().push(12); }
pub fn setup_3(w: &mut World, _: SystemCommand) { w.resource_mut::<Log>().push(13); }
pub fn setup_4(w: &mut World, _: SystemCommand) { w.resource_mut::<Log>().push(14); }
pub fn setup_5(w: &mut World, _: SystemCommand) { w.resource_mut::<Log>().push(15); }
pub fn cleanup_1(w: &mut World) { w.resource_mut::<Log>().push(21); }
pub fn cleanup_2(w: &mut World) { w.resource_mut::<Log>().push(22); }
pub fn cleanup_3(w: &mut World) { w.resource_mut::<Log>().push(23); }
pub fn cleanup_4(w: &mut World) { w.resource_mut::<Log>().push(24); }
pub fn cleanup_5(w: &mut World) { w.resource_mut::<Log>().push(25); }
pub fn setup_k(k: u8, s: SystemCommand) -> SystemCommandSetup
{
    SystemCommandSetup::new(s, match k { 1 => setup_1, 2 => setup_2, 3 => setup_3, 4 => setup_4, _ => setup_5 })
}
pub fn cleanup_k(k: u8) -> SystemCommandCleanup
{
    SystemCommandCleanup::new(match k { 1 => cleanup_1, 2 => cleanup_2, 3 => cleanup_3, 4 => cleanup_4, _ => cleanup_5 })
}
pub fn setup_parts(s: &SystemCommandSetup) -> (SystemCommand, fn(&mut World, SystemCommand)) { (s.reactor, s.setup) }
pub fn set_counter(world: &mut World, v: usize) { **world.resource_mut::<SyscommandCounter>() = v; }
pub fn buffered_len(world: &World) -> usize { crate::react::command_queue::verif_h::queue_len(world.resource::<CobwebCommandQueue<BufferedSyscommand>>()) }
pub fn buffered_at(world: &World, i: usize) -> BufferedSyscommand { crate::react::command_queue::verif_h::queue_at(world.resource::<CobwebCommandQueue<BufferedSyscommand>>(), i) }
pub fn buffer_push(world: &mut World, command: SystemCommand, k: u8)
{
    world.resource_mut::<CobwebCommandQueue<BufferedSyscommand>>().push(BufferedSyscommand{ command, setup: setup_k(k, command), cleanup: cleanup_k(k) });
}
pub fn log_is(world: &World, expect: &[u8]) -> bool
{
    let log = world.resource::<Log>();
    if log.len != expect.len() { return false; }
    let mut ok = true;
    bevy::m_unrolled!(i in [0, 1, 2, 3, 4, 5, 6, 7, 8, 9, 10, 11] { if i < expect.len() && log.entries[i] != expect[i] { ok = false; } });
    ok
}

macro_rules! runner_harness {
    ($name:ident, $unwind:literal, $body:block) => {
        #[kani::proof]
        #[kani::stub(core::any::TypeId::of, crate::vh::stub_typeid_of)]
        #[kani::stub(<core::any::TypeId as crate::vh::PEq>::eq, crate::vh::stub_typeid_eq)]
        #[kani::stub(crate::ecs::auto_despawn::garbage_collect_entities, stub_noop)]
        #[kani::stub(crate::react::utils::schedule_removal_and_despawn_reactors, stub_noop)]
        #[kani::stub(bevy::world::Commands::queue, bevy::world::Commands::m_queue_record)]
        #[kani::stub(<bevy::world::EntityWorldMut as bevy::hierarchy::DespawnRecursiveExt>::despawn_recursive, stub_despawn_recursive_flag)]
        #[kani::unwind($unwind)]
        fn $name() $body
    };
}

/// S1 (C02/C11/C18/C05): the target entity does not exist (never existed / stale id): nothing runs on its behalf, but the
/// command's setup and cleanup both run (event data is claimed and released), in that order, exactly once; the buffer and
/// the counter are untouched.
fn step_missing_target(stale: bool, idx: usize)
{
    let mut world = mk_world();
    world.m_apply_table::<(SystemCommand,)>();
    world.m_drop_table::<bevy::model::cell::LeakAll>();
    let other = logger(&mut world, 2);
    let target = if stale { SystemCommand(Entity::m_new(other.index(), other.generation() + 1)) } else { SystemCommand(Entity::m_new(4, 1)) };
    set_counter(&mut world, idx);
    if idx > 0 { buffer_push(&mut world, other, 3); }      // somebody else's postponed command must not be touched
    syscommand_runner(&mut world, target, setup_k(1, target), cleanup_k(1));
    assert!(log_is(&world, &[11, 21]), "C18/C05/C11: a command for a missing system runs no system, and runs its setup then its cleanup exactly once");
    assert!(counter(&world) == idx, "C11: an aborted command does not change the tree position");
    assert!(buffered_len(&world) == (if idx > 0 { 1 } else { 0 }), "C02: an aborted command leaves other postponed commands alone");
    assert!(has_callback(&world, other), "C18: other systems keep their callback");
    kani::cover!(true, "end of harness reached");
    std::mem::forget(world);
}
runner_harness!(runner_step_missing_target_root, 3, { step_missing_target(false, 0) });
runner_harness!(runner_step_stale_target_nested, 3, { step_missing_target(true, 2) });

/// S1b: the entity exists but carries no system (component missing): same as S1.
runner_harness!(runner_step_entity_without_system, 3, {
    let mut world = mk_world();
    world.m_apply_table::<(SystemCommand,)>();
    world.m_drop_table::<bevy::model::cell::LeakAll>();
    let neighbour = logger(&mut world, 2);
    let plain = world.spawn_empty().id();
    let idx: usize = if kani::any() { 0 } else { 3 };
    set_counter(&mut world, idx);
    syscommand_runner(&mut world, SystemCommand(plain), setup_k(2, SystemCommand(plain)), cleanup_k(2));
    assert!(log_is(&world, &[12, 22]), "C11/C18/C05: a command aimed at a live entity without a system still runs setup then cleanup once (event data released, reacting flag cleared)");
    assert!(counter(&world) == idx && buffered_len(&world) == 0);
    assert!(world.m_alive(plain), "C18: the entity itself is left alone");
    kani::cover!(idx == 0, "root"); kani::cover!(idx == 3, "nested");
    std::mem::forget(world);
});

/// S2 (C02/C09/C12): the target is currently executing (its callback is out).  Inside a tree (idx > 0) the command is
/// appended to the postponement buffer unchanged (same command, same setup, same cleanup), behind what is already there,
/// and nothing runs - not even setup/cleanup; at the root (idx == 0) it is treated like a missing system (setup+cleanup).
fn step_target_busy(idx: usize)
{
    let mut world = mk_world();
    world.m_apply_table::<(SystemCommand,)>();
    world.m_drop_table::<bevy::model::cell::LeakAll>();
    let a = logger(&mut world, 1);
    let b = logger(&mut world, 2);
    let taken = world.get_mut::<SystemCommandStorage>(*a).unwrap().take().unwrap();      // A is executing
    set_counter(&mut world, idx);
    if idx > 0 { buffer_push(&mut world, b, 3); }
    syscommand_runner(&mut world, a, setup_k(1, a), cleanup_k(1));
    if idx > 0
    {
        assert!(log_is(&world, &[]), "C02/C04: a postponed command runs nothing now - no system, no setup, no cleanup");
        assert!(buffered_len(&world) == 2, "C02: it is appended to the postponement buffer");
        let first = buffered_at(&world, 0); let last = buffered_at(&world, 1);
        assert!(first.command == b, "C12: behind what was already postponed");
        assert!(last.command == a && last.setup.reactor == a && last.setup.setup == (setup_1 as fn(&mut World, SystemCommand))
            && crate::react::system_command_spawning::verif_h::cleanup_fn(&last.cleanup) == Some(cleanup_1 as fn(&mut World)), "C03/C12: with its own setup and cleanup");
        assert!(counter(&world) == idx);
    }
    else
    {
        assert!(log_is(&world, &[11, 21]), "C11: at the root a command whose system is lost is aborted with setup+cleanup");
        assert!(buffered_len(&world) == 0 && counter(&world) == 0);
    }
    assert!(!has_callback(&world, a) && has_callback(&world, b));
    kani::cover!(true, "end of harness reached");
    std::mem::forget(taken); std::mem::forget(world);
}
runner_harness!(runner_step_target_busy_nested, 3, { step_target_busy(1) });
runner_harness!(runner_step_target_busy_root, 3, { step_target_busy(0) });

/// S3 (C02/C04/C11/C13): the target is idle: setup, then the system (which runs the cleanup it was handed), exactly once, the
/// callback is put back, the counter moves by one inside a tree and is reset at the root; any tree position is accepted.
runner_harness!(runner_step_plain_run, 3, {
    let mut world = mk_world();
    world.m_apply_table::<(SystemCommand,)>();
    world.m_drop_table::<bevy::model::cell::LeakAll>();
    let a = logger(&mut world, 1);
    let idx: usize = kani::any();
    kani::assume(idx < usize::MAX);
    set_counter(&mut world, idx);
    syscommand_runner(&mut world, a, setup_k(1, a), cleanup_k(1));
    assert!(log_is(&world, &[11, 1, 21]), "C02/C04: setup, the system exactly once, its cleanup - at ANY depth of the tree");
    assert!(has_callback(&world, a), "C11/C13: the system is back in its storage");
    assert!(counter(&world) == (if idx == 0 { 0 } else { idx + 1 }), "C11: counter reset at the root, advanced inside a tree");
    assert!(buffered_len(&world) == 0);
    kani::cover!(idx == 0, "root"); kani::cover!(idx > 200, "deep inside a tree");
    std::mem::forget(world);
});


//-------------------------------------------------------------------------------------------------------------------
// replay step with the NESTED runner calls recorded instead of executed
//-------------------------------------------------------------------------------------------------------------------
// `syscommand_runner_top` is the real runner's text under another name (a generated twin, see gen/gen_tree.py); the
// ORIGINAL `syscommand_runner` - which the twin's body calls from its replay closure, and which `Command::apply` calls -
// is stubbed by `record_nested`.  The code under test is therefore the real runner body with its nested calls replaced by
// a recorder of their arguments: an inductive step whose hypothesis is the nested call's own specification (decided by
// the S1-S3 obligations on the original).
// the twin: `fn syscommand_runner_top(..)` = the real runner's text (generated by gen_tree.py on every run)
include!(concat!(env!("CARGO_MANIFEST_DIR"), "/src/twins/react__syscommand_runner__syscommand_runner.rs"));
pub fn top_runner(world: &mut World, command: SystemCommand, setup: SystemCommandSetup, cleanup: SystemCommandCleanup)
{
    syscommand_runner_top(world, command, setup, cleanup);
}
/// recorded nested calls: (entity index of the command, entity index of the setup's reactor, setup id, cleanup id)
pub static mut NESTED: [(u32, u32, u8, u8); 4] = [(0x5EED, 0, 0, 0); 4];
pub static mut NESTED_N: usize = 0x5EED_0800;
pub fn nested_n() -> usize { unsafe { NESTED_N - 0x5EED_0800 } }
pub fn setup_id(s: &SystemCommandSetup) -> u8
{
    let f = s.setup;
    if f == setup_1 as fn(&mut World, SystemCommand) { 1 } else if f == setup_2 as fn(&mut World, SystemCommand) { 2 }
    else if f == setup_3 as fn(&mut World, SystemCommand) { 3 } else if f == setup_4 as fn(&mut World, SystemCommand) { 4 } else if f == setup_5 as fn(&mut World, SystemCommand) { 5 } else { 0 }
}
pub fn cleanup_id(c: &SystemCommandCleanup) -> u8
{
    match crate::react::system_command_spawning::verif_h::cleanup_fn(c)
    {
        None => 0,
        Some(f) => if f == cleanup_1 as fn(&mut World) { 1 } else if f == cleanup_2 as fn(&mut World) { 2 }
            else if f == cleanup_3 as fn(&mut World) { 3 } else if f == cleanup_4 as fn(&mut World) { 4 } else if f == cleanup_5 as fn(&mut World) { 5 } else { 9 },
    }
}
pub fn record_nested(world: &mut World, command: SystemCommand, setup: SystemCommandSetup, cleanup: SystemCommandCleanup)
{
    unsafe
    {
        let n = nested_n();
        if n >= 4 { panic!("more nested runner calls than the harness provides for"); }
        NESTED[n] = (command.index(), setup.reactor.index(), setup_id(&setup), cleanup_id(&cleanup));
        NESTED_N += 1;
    }
    // the nested run itself, reduced to its visible trace: the system's mark (recorded calls only ever target A = 1)
    world.resource_mut::<Log>().push(100);
    // a replayed run may itself send a command to a system that is still executing further up (B): it lands in the live buffer
    unsafe
    {
        if NESTED_POSTPONES_FOR != 0x5EED_0D00
        {
            let b = SystemCommand(Entity::m_new((NESTED_POSTPONES_FOR - 0x5EED_0D01) as u32, 1));
            buffer_push(world, b, 1);
        }
    }
}
/// entity index (+1, relative to the base) of a busy system for which every recorded nested run postpones one more command
pub static mut NESTED_POSTPONES_FOR: usize = 0x5EED_0D00;

macro_rules! runner_top_harness {
    ($name:ident, $unwind:literal, $body:block) => {
        #[kani::proof]
        #[kani::stub(core::any::TypeId::of, crate::vh::stub_typeid_of)]
        #[kani::stub(<core::any::TypeId as crate::vh::PEq>::eq, crate::vh::stub_typeid_eq)]
        #[kani::stub(crate::ecs::auto_despawn::garbage_collect_entities, stub_noop)]
        #[kani::stub(crate::react::utils::schedule_removal_and_despawn_reactors, stub_noop)]
        #[kani::stub(bevy::world::Commands::queue, bevy::world::Commands::m_queue_record)]
        #[kani::stub(<bevy::world::EntityWorldMut as bevy::hierarchy::DespawnRecursiveExt>::despawn_recursive, stub_despawn_recursive_flag)]
        #[kani::stub(crate::react::syscommand_runner::syscommand_runner, record_nested)]
        #[kani::unwind($unwind)]
        fn $name() $body
    };
}

/// S4 (C02/C09/C12/C05/C11): the replay step.  Pre-state: K commands are already postponed (each for A, the system about
/// to run, or for B, a system still executing further up / lost), each with its OWN setup and cleanup; which is which is
/// symbolic, and so is the tree depth.  One execution of the real runner body for A must: run A once with the caller's
/// setup/cleanup; then hand exactly the postponed commands for A back to the runner, in the order they were postponed,
/// each with its own setup and cleanup (and nothing else); keep the commands for B in order; and at the root discard
/// those through their setup+cleanup (releasing their event data) without running anything, leaving the buffer empty and
/// the counter reset.
fn step_replay<const K: usize>(root: bool)
{
    let mut world = mk_world();
    world.m_apply_table::<(SystemCommand,)>();
    world.m_drop_table::<bevy::model::cell::LeakAll>();
    let a = logger(&mut world, 1);
    let b = logger(&mut world, 2);
    let b_taken = world.get_mut::<SystemCommandStorage>(*b).unwrap().take().unwrap();      // B is executing / lost
    let idx: usize = if root { 0 } else { let d: usize = kani::any(); kani::assume(d >= 1 && d < usize::MAX - 8); d };
    set_counter(&mut world, idx);
    let is_a: [bool; K] = kani::any();
    let mut i = 0;
    while i < K { buffer_push(&mut world, if is_a[i] { a } else { b }, (i + 2) as u8); i += 1; }

    top_runner(&mut world, a, setup_k(1, a), cleanup_k(1));

    // expected trace: A's own run, one recorded nested call per postponed A-command, then (root only) the discards
    let mut expect = [0u8; 12]; let mut n = 0;
    expect[0] = 11; expect[1] = 1; expect[2] = 21; n = 3;
    let mut replays = 0; let mut kept = 0;
    let mut i = 0;
    while i < K
    {
        if is_a[i]
        {
            expect[n] = 100; n += 1;
            let r = unsafe { NESTED[replays] };
            assert!(replays < nested_n() && r.0 == a.index() && r.1 == a.index() && r.2 == (i + 2) as u8 && r.3 == (i + 2) as u8,
                "C12/C05/C03: postponed commands for the finished system are replayed in the order they were postponed, each with its OWN setup and cleanup");
            replays += 1;
        }
        else { kept += 1; }
        i += 1;
    }
    assert!(nested_n() == replays, "C02: exactly the postponed commands for the finished system are replayed, each once");
    if root { let mut i = 0; while i < K { if !is_a[i] { expect[n] = 12 + i as u8; expect[n + 1] = 22 + i as u8; n += 2; } i += 1; } }
    assert!(log_is(&world, &expect[..n]), "C02/C09/C05/C11: A runs once; replays follow at once; at the root what is left is discarded through its own setup+cleanup and nothing of it runs");
    assert!(has_callback(&world, a), "C11/C13: A is back in its storage before the replays");
    if root
    {
        assert!(buffered_len(&world) == 0 && counter(&world) == 0, "C11: nothing is left waiting and the tree position is reset");
    }
    else
    {
        assert!(buffered_len(&world) == kept && counter(&world) == idx + 1, "C02: commands for a system that is still executing stay postponed");
        let mut i = 0; let mut j = 0;
        while i < K
        {
            if !is_a[i]
            {
                let e = buffered_at(&world, j);
                assert!(e.command == b && setup_id(&e.setup) == (i + 2) as u8 && cleanup_id(&e.cleanup) == (i + 2) as u8, "C12: in the order they were postponed, unchanged");
                j += 1;
            }
            i += 1;
        }
    }
    assert!(!lost_system_path_taken(), "the error path 'system lost its storage component' is not taken");
    kani::cover!(kept == 0, "all for A"); kani::cover!(kept == K, "none for A");
    std::mem::forget(b_taken); std::mem::forget(world);
}
runner_top_harness!(runner_step_replay_1_root, 4, { step_replay::<1>(true) });
runner_top_harness!(runner_step_replay_1_nested, 4, { step_replay::<1>(false) });
runner_top_harness!(runner_step_replay_2_root, 4, { step_replay::<2>(true) });
runner_top_harness!(runner_step_replay_2_nested, 4, { step_replay::<2>(false) });
runner_top_harness!(runner_step_replay_3_root, 5, { step_replay::<3>(true) });
runner_top_harness!(runner_step_replay_3_nested, 5, { step_replay::<3>(false) });
runner_top_harness!(runner_step_replay_4_root, 6, { step_replay::<4>(true) });

/// vacuity twin of the step family: the plain-run path is reachable (the final assert(false) must come back violated)
runner_harness!(runner_step_witness, 3, {
    let mut world = mk_world();
    world.m_apply_table::<(SystemCommand,)>();
    world.m_drop_table::<bevy::model::cell::LeakAll>();
    let a = logger(&mut world, 1);
    syscommand_runner(&mut world, a, setup_k(1, a), cleanup_k(1));
    assert!(false, "witness: end of the runner step reached");
});

/// S5 (C09/C02): two levels through the model's real flush: A's run queues a command for the idle system B and flushes
/// (what `apply_deferred` does at the end of a callback): B runs in-line, completely, before A's run continues; both
/// callbacks are back afterwards and the tree bookkeeping is reset.
runner_harness!(runner_nested_inline, 4, {
    let mut world = mk_world();
    world.m_apply_table::<(SystemCommand,)>();
    world.m_drop_table::<bevy::model::cell::LeakAll>();
    let b = logger(&mut world, 2);
    let a = spawn_system_command_from(&mut world, SystemCommandCallback::with(move |w: &mut World, cleanup: SystemCommandCleanup| {
        w.resource_mut::<Log>().push(1); cleanup.run(w);
        w.commands().queue(b);
        w.flush();
        w.resource_mut::<Log>().push(9);
    }));
    syscommand_runner(&mut world, a, setup_k(1, a), cleanup_k(1));
    assert!(log_is(&world, &[11, 1, 21, 2, 9]), "C09/C02: the nested command runs in-line, once, before the queuing run continues");
    assert!(has_callback(&world, a) && has_callback(&world, b) && counter(&world) == 0 && buffered_len(&world) == 0, "C11: quiescent afterwards");
    assert!(!lost_system_path_taken());
    kani::cover!(true, "end of harness reached");
    std::mem::forget(world);
});

/// S4b (C02/C11/C12): as S4 with K = 2, and every replayed run postpones one more command for the still-executing system B
/// (it lands in the live buffer while the old buffer is being replayed).  Nothing may be stranded: inside a tree the new
/// commands and the kept old ones are all still postponed afterwards; at the root every one of them is discarded through
/// its own setup+cleanup.
fn step_replay_nested_postpones(root: bool)
{
    let mut world = mk_world();
    world.m_apply_table::<(SystemCommand,)>();
    world.m_drop_table::<bevy::model::cell::LeakAll>();
    let a = logger(&mut world, 1);
    let b = logger(&mut world, 2);
    let b_taken = world.get_mut::<SystemCommandStorage>(*b).unwrap().take().unwrap();
    assert!(b.generation() == 1);
    unsafe { NESTED_POSTPONES_FOR = 0x5EED_0D01 + b.index() as usize; }
    let idx: usize = if root { 0 } else { let d: usize = kani::any(); kani::assume(d >= 1 && d < usize::MAX - 8); d };
    set_counter(&mut world, idx);
    // concrete ownership (the symbolic-ownership version ran out of memory at 14 GB): one command for A in front of one for B
    let is_a: [bool; 2] = [true, false];
    buffer_push(&mut world, a, 2);
    buffer_push(&mut world, b, 3);

    top_runner(&mut world, a, setup_k(1, a), cleanup_k(1));

    let replays = (is_a[0] as usize) + (is_a[1] as usize);
    let kept = 2 - replays;
    assert!(nested_n() == replays, "C02: exactly the finished system's postponed commands are replayed");
    if root
    {
        // discards: every leftover - the commands newly postponed during the replays and the kept old ones - goes through setup+cleanup
        let log = world.resource::<Log>();
        assert!(log.len == 3 + replays + 2 * (replays + kept), "C02/C11/C05: every postponed command - old or sent during a replay - is either replayed or discarded through its setup+cleanup; none is stranded");
        assert!(buffered_len(&world) == 0 && counter(&world) == 0 && crate::react::command_queue::verif_h::no_cached_commands(world.resource::<CobwebCommandQueue<BufferedSyscommand>>()),
            "C11: nothing is left waiting anywhere, not even in a cached buffer");
    }
    else
    {
        assert!(buffered_len(&world) == kept + replays, "C02: commands postponed during a replay and the kept older ones all stay postponed; none is stranded");
        assert!(crate::react::command_queue::verif_h::no_cached_commands(world.resource::<CobwebCommandQueue<BufferedSyscommand>>()), "C11/C02: cached buffers hold no commands");
    }
    kani::cover!(replays == 1 && kept == 1, "one replayed, one kept, one new");
    std::mem::forget(b_taken); std::mem::forget(world);
}
runner_top_harness!(runner_step_replay_nested_postpones_root, 5, { step_replay_nested_postpones(true) });
runner_top_harness!(runner_step_replay_nested_postpones_nested, 5, { step_replay_nested_postpones(false) });

//-------------------------------------------------------------------------------------------------------------------
// the runner's pre-run poll can itself schedule a reaction for the very system that is about to run
//-------------------------------------------------------------------------------------------------------------------
pub static mut POLL_TARGET: (u32, usize) = (0x5EED, 0x5EED_0E00);      // (entity index, polls done so far + base)
/// stands in for `schedule_removal_and_despawn_reactors`: the FIRST poll finds one pending (despawn / removal) reaction
/// for the system at `POLL_TARGET` and applies it, as the real poll does by flushing: a nested runner call
pub fn stub_poll_schedules_reaction(world: &mut World)
{
    unsafe
    {
        POLL_TARGET.1 += 1;
        if POLL_TARGET.1 == 0x5EED_0E01
        {
            let target = SystemCommand(Entity::m_new(POLL_TARGET.0, 1));
            syscommand_runner(world, target, setup_k(2, target), cleanup_k(2));
        }
    }
}

/// S6 (C02/C08): a reaction that the runner's own poll schedules for the system that is about to run is not lost: it runs
/// that system (exactly once), and the command that was being applied runs it too.
#[kani::proof]
#[kani::stub(core::any::TypeId::of, crate::vh::stub_typeid_of)]
#[kani::stub(<core::any::TypeId as crate::vh::PEq>::eq, crate::vh::stub_typeid_eq)]
#[kani::stub(crate::ecs::auto_despawn::garbage_collect_entities, stub_noop)]
#[kani::stub(crate::react::utils::schedule_removal_and_despawn_reactors, stub_poll_schedules_reaction)]
#[kani::stub(bevy::world::Commands::queue, bevy::world::Commands::m_queue_record)]
#[kani::stub(<bevy::world::EntityWorldMut as bevy::hierarchy::DespawnRecursiveExt>::despawn_recursive, stub_despawn_recursive_flag)]
#[kani::unwind(4)]
fn runner_poll_reaction_for_same_system()
{
    let mut world = mk_world();
    world.m_apply_table::<(SystemCommand,)>();
    world.m_drop_table::<bevy::model::cell::LeakAll>();
    let a = logger(&mut world, 1);
    assert!(a.generation() == 1);
    unsafe { POLL_TARGET.0 = a.index(); }
    syscommand_runner(&mut world, a, setup_k(1, a), cleanup_k(1));
    let log = world.resource::<Log>();
    assert!(log.count(1) == 2, "C02/C08: the polled reaction and the applied command each run the (idle, live) system exactly once - neither is dropped");
    assert!(log.count(12) == 1 && log.count(22) == 1 && log.count(11) == 1 && log.count(21) == 1, "C05: each with its own setup and cleanup, once");
    assert!(has_callback(&world, a) && counter(&world) == 0 && buffered_len(&world) == 0, "C11: quiescent afterwards");
    assert!(!lost_system_path_taken());
    kani::cover!(true, "end of harness reached");
    std::mem::forget(world);
}

//-------------------------------------------------------------------------------------------------------------------
// where the runner polls (C08): marks instead of no-ops
//-------------------------------------------------------------------------------------------------------------------
pub fn stub_gc_mark(w: &mut World) { w.resource_mut::<Log>().push(31); }
pub fn stub_poll_mark(w: &mut World) { w.resource_mut::<Log>().push(32); }
/// index of the last occurrence of `x` in the log (or None)
pub fn last_index(world: &World, x: u8) -> Option<usize>
{
    let log = world.resource::<Log>();
    let mut r = None;
    bevy::m_unrolled!(i in [0, 1, 2, 3, 4, 5, 6, 7, 8, 9, 10, 11] { if i < log.len && log.entries[i] == x { r = Some(i); } });
    r
}
macro_rules! runner_marks_harness {
    ($name:ident, $unwind:literal, $body:block) => {
        #[kani::proof]
        #[kani::stub(core::any::TypeId::of, crate::vh::stub_typeid_of)]
        #[kani::stub(<core::any::TypeId as crate::vh::PEq>::eq, crate::vh::stub_typeid_eq)]
        #[kani::stub(crate::ecs::auto_despawn::garbage_collect_entities, stub_gc_mark)]
        #[kani::stub(crate::react::utils::schedule_removal_and_despawn_reactors, stub_poll_mark)]
        #[kani::stub(bevy::world::Commands::queue, bevy::world::Commands::m_queue_record)]
        #[kani::stub(<bevy::world::EntityWorldMut as bevy::hierarchy::DespawnRecursiveExt>::despawn_recursive, stub_despawn_recursive_flag)]
        #[kani::unwind($unwind)]
        fn $name() $body
    };
}

/// S7 (C08/C07): whatever a run (or an aborted command's cleanup) removed, despawned or released is looked at before the
/// runner returns: after the system and its cleanup there is a garbage collection followed by a removal/despawn poll - at
/// the root and inside a tree, for an idle target and for a missing one.
runner_marks_harness!(runner_polls_after_the_run, 3, {
    let mut world = mk_world();
    world.m_apply_table::<(SystemCommand,)>();
    world.m_drop_table::<bevy::model::cell::LeakAll>();
    let a = logger(&mut world, 1);
    let missing: bool = kani::any();
    let target = if missing { SystemCommand(Entity::m_new(a.index(), a.generation() + 1)) } else { a };
    let idx: usize = if kani::any() { 0 } else { 3 };
    set_counter(&mut world, idx);
    syscommand_runner(&mut world, target, setup_k(1, target), cleanup_k(1));
    let cleanup_at = last_index(&world, 21);
    let gc_at = last_index(&world, 31);
    let poll_at = last_index(&world, 32);
    assert!(cleanup_at.is_some() && world.resource::<Log>().count(1) == (if missing { 0 } else { 1 }));
    if !missing
    {
        let setup_at = last_index(&world, 11).unwrap();
        assert!(last_index(&world, 1) == Some(setup_at + 1), "C04/C03: nothing else happens - no collection, no poll, hence no other system's run - between the moment the event data is exposed (setup) and the reacting system's run");
    }
    assert!(gc_at.is_some() && gc_at > cleanup_at, "C07/C10: entities released by the run (or by an aborted command's cleanup) are collected before the runner returns");
    assert!(poll_at.is_some() && poll_at > gc_at, "C08: removals and despawns caused by the run - including those of that collection - are polled before the runner returns, i.e. within the tree");
    kani::cover!(missing && idx == 0, "aborted at the root"); kani::cover!(!missing && idx == 3, "ran inside a tree");
    std::mem::forget(world);
});

/// S8 (C11/C02): a system that despawns its own entity while it runs (what a one-off reactor does), with one command
/// postponed for itself and one for another, lost system: the runner still finishes the tree - at the root the leftovers
/// are discarded through setup+cleanup, nothing stays postponed, the counter is reset; nothing runs for the dead system.
fn step_self_despawn(root: bool)
{
    let mut world = mk_world();
    world.m_apply_table::<(SystemCommand,)>();
    world.m_drop_table::<bevy::model::cell::LeakAll>();
    let b = logger(&mut world, 2);
    let b_taken = world.get_mut::<SystemCommandStorage>(*b).unwrap().take().unwrap();
    let a_id = Entity::m_new(b.index() + 1, 1);
    let a = spawn_system_command_from(&mut world, SystemCommandCallback::with(move |w: &mut World, cleanup: SystemCommandCleanup| {
        w.resource_mut::<Log>().push(1); cleanup.run(w);
        w.despawn(a_id);
    }));
    assert!(*a == a_id);
    let idx: usize = if root { 0 } else { 2 };
    set_counter(&mut world, idx);
    buffer_push(&mut world, a, 2);
    buffer_push(&mut world, b, 3);

    top_runner(&mut world, a, setup_k(1, a), cleanup_k(1));

    assert!(!world.m_alive(a_id), "the system despawned itself");
    assert!(world.resource::<Log>().count(1) == 1, "C02: it ran exactly once");
    if root
    {
        assert!(counter(&world) == 0 && buffered_len(&world) == 0, "C11: a tree whose root command despawned itself still ends with the counter reset and nothing left postponed");
        let log = world.resource::<Log>();
        assert!(log.count(13) == 1 && log.count(23) == 1, "C11/C05: the other system's leftover command is discarded through its own setup and cleanup");
        assert!(nested_n() + log.count(12) == 1 && nested_n() + log.count(22) == 1, "C05/C18: the dead system's postponed command is handed back to the runner (which aborts it) or discarded - either way its data is released exactly once");
    }
    else
    {
        assert!(counter(&world) == idx + 1, "inside a tree the position only advances");
        assert!(nested_n() + buffered_len(&world) == 2, "C02: postponed commands are replayed or stay postponed - none vanishes");
    }
    assert!(!lost_system_path_taken());
    kani::cover!(true, "end of harness reached");
    std::mem::forget(b_taken); std::mem::forget(world);
}
runner_top_harness!(runner_step_self_despawn_root, 4, { step_self_despawn(true) });
runner_top_harness!(runner_step_self_despawn_nested, 4, { step_self_despawn(false) });

//-------------------------------------------------------------------------------------------------------------------
// runner + the REAL callback wrapper (SystemCommandCallback::new -> RawCallbackSystem -> run_initialized_system)
//-------------------------------------------------------------------------------------------------------------------
pub struct Mark(pub u8);
impl Command for Mark { fn apply(self, w: &mut World) { w.resource_mut::<Log>().push(self.0); } }

fn ordinary_counting_system(mut c: Commands, mut log: bevy::ecs::system::ResMut<Log>, mut runs: bevy::ecs::system::Local<u8>)
{
    *runs += 1;
    log.push(40 + *runs);
    c.queue(Mark(3));
}

/// S9 (C04/C09/C13): the joined path for an ordinary Bevy system registered the way reactors are: the runner runs the
/// command's setup, then the system body, then the command's cleanup, and only then the commands the body queued
/// (so those already see no event data); the system's `Local` continues over two commands; quiescent after each.
runner_harness!(runner_real_callback_cleanup_before_deferred, 4, {
    let mut world = mk_world();
    world.m_apply_table::<(Mark,)>();
    world.m_drop_table::<bevy::model::cell::LeakAll>();
    let a = spawn_system_command(&mut world, ordinary_counting_system);
    syscommand_runner(&mut world, a, setup_k(1, a), cleanup_k(1));
    assert!(log_is(&world, &[11, 41, 21, 3]), "C04/C09: setup, body, cleanup, THEN the body's deferred commands");
    assert!(has_callback(&world, a) && counter(&world) == 0, "C11: quiescent");
    syscommand_runner(&mut world, a, setup_k(2, a), cleanup_k(2));
    assert!(log_is(&world, &[11, 41, 21, 3, 12, 42, 22, 3]), "C13: the second command's run continues the same Local; C04 again, with the second command's own setup/cleanup");
    assert!(!lost_system_path_taken());
    kani::cover!(true, "end of harness reached");
    std::mem::forget(world);
});

/// S4c (C12/C09): the replay ORDER alone, on the lightest shape that can show a reordering: three commands postponed for
/// the finishing system itself (concrete ownership), distinct setup/cleanup, at the root.
runner_top_harness!(runner_step_replay_order_three, 5, {
    let mut world = mk_world();
    world.m_apply_table::<(SystemCommand,)>();
    world.m_drop_table::<bevy::model::cell::LeakAll>();
    let a = logger(&mut world, 1);
    set_counter(&mut world, 0);
    buffer_push(&mut world, a, 2);
    buffer_push(&mut world, a, 3);
    buffer_push(&mut world, a, 4);
    top_runner(&mut world, a, setup_k(1, a), cleanup_k(1));
    assert!(nested_n() == 3, "C02: each postponed command is replayed once");
    let r = unsafe { NESTED };
    assert!(r[0].2 == 2 && r[0].3 == 2 && r[1].2 == 3 && r[1].3 == 3 && r[2].2 == 4 && r[2].3 == 4, "C12/C09: replayed in the order they were postponed, each with its own setup and cleanup");
    assert!(buffered_len(&world) == 0 && counter(&world) == 0 && has_callback(&world, a), "C11: quiescent");
    kani::cover!(true, "end of harness reached");
    std::mem::forget(world);
});
