// K2 harnesses over the real src/ecs/callbacks.rs.
use bevy::ecs::system::{ResMut, Local, Resource};
use bevy::world::CmdMode;

pub struct Log { pub items: [u8; 8], pub n: usize }
impl Resource for Log {}
impl Log { pub fn push(&mut self, x: u8) { self.items[self.n] = x; self.n += 1; } }
pub struct Mark(pub u8);
impl Command for Mark { fn apply(self, w: &mut World) { w.resource_mut::<Log>().push(self.0); } }

fn cleanup_marker(w: &mut World) { w.resource_mut::<Log>().push(2); }

/// C04 / C13, ordinary (non-exclusive) system: per run the order is body, cleanup, then the commands the body
/// queued; the system is initialized exactly once and its `Local` continues across runs.
#[kani::proof]
#[kani::stub(core::any::TypeId::of, crate::vh::stub_typeid_of)]
#[kani::stub(<core::any::TypeId as crate::vh::PEq>::eq, crate::vh::stub_typeid_eq)]
#[kani::unwind(4)]
fn callbacks_ordinary_system_cleanup_before_deferred()
{
    let mut world = World::new();
    world.m_apply_table::<(Mark,)>();
    world.insert_resource(Log{ items: [0; 8], n: 0 });
    let early: bool = kani::any();
    let mut cb = RawCallbackSystem::new(move |mut c: Commands, mut log: ResMut<Log>, mut runs: Local<u8>| -> Result<(), ()>
    {
        *runs += 1;
        log.push(10 + *runs);
        c.queue(Mark(3));
        if early { return Err(()); }       // a reactor that returns early with an error takes the same path
        Ok(())
    });
    assert!(cb.is_new());
    let _ = cb.run_with_cleanup(&mut world, (), cleanup_marker);
    assert!(cb.is_initialized(), "C13: New -> Initialized");
    let _ = cb.run_with_cleanup(&mut world, (), cleanup_marker);
    assert!(cb.is_initialized(), "C13: stays Initialized");
    let log = world.resource::<Log>();
    assert!(log.n == 6);
    assert!(log.items[0] == 11 && log.items[1] == 2 && log.items[2] == 3, "C04: body, then cleanup, then the body's deferred commands");
    assert!(log.items[3] == 12 && log.items[4] == 2 && log.items[5] == 3, "C13: the second run sees the first run's Local (one persistent state); C04 again");
    if let RawCallbackSystem::Initialized(sys) = &cb { assert!(sys.m_inits == 1, "C13: the system state is created exactly once"); }
    kani::cover!(early, "early return");
    std::mem::forget(world); std::mem::forget(cb);
}

/// C04 / C13, exclusive (world-access) system: the cleanup is queued ahead of whatever the body queues, so it still
/// takes effect before the body's commands; initialized once.
#[kani::proof]
#[kani::stub(core::any::TypeId::of, crate::vh::stub_typeid_of)]
#[kani::stub(<core::any::TypeId as crate::vh::PEq>::eq, crate::vh::stub_typeid_eq)]
#[kani::unwind(4)]
fn callbacks_exclusive_system_cleanup_before_deferred()
{
    let mut world = World::new();
    world.m_apply_via_fn_pointer();
    world.insert_resource(Log{ items: [0; 8], n: 0 });
    let mut cb = RawCallbackSystem::new(|w: &mut World|
    {
        w.resource_mut::<Log>().push(1);
        w.commands().queue(Mark(3));
    });
    cb.run_with_cleanup(&mut world, (), cleanup_marker);
    cb.run_with_cleanup(&mut world, (), cleanup_marker);
    let log = world.resource::<Log>();
    assert!(log.n == 6);
    assert!(log.items[0] == 1 && log.items[1] == 2 && log.items[2] == 3, "C04 (exclusive): body, cleanup, then the body's commands");
    assert!(log.items[3] == 1 && log.items[4] == 2 && log.items[5] == 3, "C04 (exclusive), second run");
    if let RawCallbackSystem::Initialized(sys) = &cb { assert!(sys.m_inits == 1, "C13: an exclusive system is initialized exactly once (re-initializing resets its Locals)"); }
    kani::cover!(true, "end reached");
    std::mem::forget(world); std::mem::forget(cb);
}

/// C04 / C13: the boxed variant; an `Empty` callback still runs the cleanup.
#[kani::proof]
#[kani::stub(core::any::TypeId::of, crate::vh::stub_typeid_of)]
#[kani::stub(<core::any::TypeId as crate::vh::PEq>::eq, crate::vh::stub_typeid_eq)]
#[kani::unwind(4)]
fn callbacks_boxed_system_and_empty()
{
    let mut world = World::new();
    world.m_apply_table::<(Mark,)>();
    world.insert_resource(Log{ items: [0; 8], n: 0 });
    let mut empty: CallbackSystem<(), ()> = CallbackSystem::Empty;
    assert!(empty.run_with_cleanup(&mut world, (), cleanup_marker).is_none());
    assert!(world.resource::<Log>().n == 1 && world.resource::<Log>().items[0] == 2, "C04: an empty callback still runs the cleanup exactly once");
    let mut cb: CallbackSystem<(), u8> = CallbackSystem::new(|mut c: Commands, mut log: ResMut<Log>, mut runs: Local<u8>| -> u8 { *runs += 1; log.push(10 + *runs); c.queue(Mark(3)); *runs });
    assert!(cb.run_with_cleanup(&mut world, (), cleanup_marker) == Some(1));
    assert!(cb.run_with_cleanup(&mut world, (), cleanup_marker) == Some(2), "C13: the boxed system keeps its state between runs");
    let log = world.resource::<Log>();
    assert!(log.n == 7 && log.items[1] == 11 && log.items[2] == 2 && log.items[3] == 3 && log.items[4] == 12 && log.items[5] == 2 && log.items[6] == 3, "C04: body, cleanup, deferred - both runs");
    std::mem::forget(world); std::mem::forget(cb);
    kani::cover!(true, "end of harness reached");
}

/// C13: `initialize()` on a callback that has already run is a no-op: the wrapped system is initialized exactly once in
/// its life (Bevy REBUILDS an exclusive system's parameter state - its `Local`s - on every `initialize`, so forwarding a
/// second `initialize` would reset the system's state); checked for the raw and the boxed callback, exclusive and ordinary.
#[kani::proof]
#[kani::stub(core::any::TypeId::of, crate::vh::stub_typeid_of)]
#[kani::stub(<core::any::TypeId as crate::vh::PEq>::eq, crate::vh::stub_typeid_eq)]
#[kani::unwind(4)]
fn callbacks_initialize_after_run_is_a_noop()
{
    let mut world = World::new();
    world.m_apply_via_fn_pointer();      // exclusive systems queue their cleanup as an (unnameable) closure command
    world.insert_resource(Log{ items: [0; 8], n: 0 });
    let mut excl = RawCallbackSystem::new(|w: &mut World| { w.resource_mut::<Log>().push(7); });
    let _ = excl.run_with_cleanup(&mut world, (), cleanup_marker);
    excl.initialize(&mut world);
    excl.initialize(&mut world);
    let _ = excl.run_with_cleanup(&mut world, (), cleanup_marker);
    if let RawCallbackSystem::Initialized(sys) = &excl { assert!(sys.m_inits == 1, "C13: an exclusive system is initialized exactly once, however often initialize() is called on its callback"); }
    else { panic!("C13: Initialized after a run"); }
    let mut ord = RawCallbackSystem::new(|mut runs: Local<u8>, mut log: ResMut<Log>| { *runs += 1; log.push(20 + *runs); });
    let _ = ord.run_with_cleanup(&mut world, (), cleanup_marker);
    ord.initialize(&mut world);
    let _ = ord.run_with_cleanup(&mut world, (), cleanup_marker);
    if let RawCallbackSystem::Initialized(sys) = &ord { assert!(sys.m_inits == 1, "C13: initialized exactly once"); }
    let log = world.resource::<Log>();
    assert!(log.n == 8 && log.items[4] == 21 && log.items[6] == 22, "C13: the Local continues across an intervening initialize()");
    let mut boxed: CallbackSystem<(), ()> = CallbackSystem::new(|w: &mut World| { w.resource_mut::<Log>(); });
    let _ = boxed.run_with_cleanup(&mut world, (), |_| {});
    boxed.initialize(&mut world);
    assert!(boxed.is_initialized());
    kani::cover!(true, "end of harness reached");
    std::mem::forget(world); std::mem::forget(excl); std::mem::forget(ord); std::mem::forget(boxed);
}
