// K2 harnesses over the real src/ecs/auto_despawn.rs.
use bevy::hierarchy::{Children, Parent, m_link};

/// Helper for harnesses of other modules (AutoDespawner::new is private to this module).
pub fn mk_despawner() -> AutoDespawner { AutoDespawner::new() }

pub struct Tag(pub u8);
impl Component for Tag {}

/// C10: the collector despawns exactly the entities whose last signal was dropped (with their descendants),
/// skips ids that are already gone WITHOUT stopping, never touches an entity whose signal is alive, and a second
/// collection is a no-op.
fn gc_kernel(e0_gone: bool, release_1: bool, with_child: bool)
{
    let mut world = World::new();
    world.m_drop_table::<(Tag, Parent, Children)>();
    let d = AutoDespawner::new();
    world.insert_resource(d.clone());
    let e0 = world.spawn_empty().id();
    let e1 = world.spawn_empty().id();
    let child = world.spawn_empty().id();
    if with_child { m_link(&mut world, e1, child); }
    let e2 = world.spawn_empty().id();
    let s0 = d.prepare(e0);
    let s1 = d.prepare(e1);
    let s2 = d.prepare(e2);

    // e0 may have been despawned by other means before its signal is released (a dead id in front of live ones)
    if e0_gone { world.despawn(e0); }
    drop(s0);
    let mut keep1 = Some(s1);
    if release_1 { keep1 = None; }
    let extra = s2.clone();
    drop(s2);                       // a clone of e2's signal is still alive

    garbage_collect_entities(&mut world);

    assert!(!world.m_alive(e0), "C10: an entity whose last signal was dropped is despawned by the next collection");
    assert!(world.m_alive(e1) == !release_1, "C10: released => despawned by the FIRST collection even behind an already-dead id; held => untouched");
    assert!(world.m_alive(child) == !(release_1 && with_child), "C10: descendants go with the entity");
    assert!(world.m_alive(e2), "C10: never despawned while a clone of the signal exists");
    let despawns = world.m_despawns;
    garbage_collect_entities(&mut world);
    assert!(world.m_despawns == despawns, "C10: collection is idempotent");
    drop(extra);
    garbage_collect_entities(&mut world);
    assert!(!world.m_alive(e2), "C10: despawned after the last clone is dropped");
    kani::cover!(true, "end reached");
    std::mem::forget(keep1); std::mem::forget(world);
}
#[kani::proof]
#[kani::stub(core::any::TypeId::of, crate::vh::stub_typeid_of)]
#[kani::stub(<core::any::TypeId as crate::vh::PEq>::eq, crate::vh::stub_typeid_eq)]
#[kani::unwind(4)]
fn gc_dead_id_in_front_of_released() { gc_kernel(true, true, false) }
#[kani::proof]
#[kani::stub(core::any::TypeId::of, crate::vh::stub_typeid_of)]
#[kani::stub(<core::any::TypeId as crate::vh::PEq>::eq, crate::vh::stub_typeid_eq)]
#[kani::unwind(4)]
fn gc_released_and_held() { gc_kernel(false, false, false) }
#[kani::proof]
#[kani::stub(core::any::TypeId::of, crate::vh::stub_typeid_of)]
#[kani::stub(<core::any::TypeId as crate::vh::PEq>::eq, crate::vh::stub_typeid_eq)]
#[kani::unwind(4)]
fn gc_all_released() { gc_kernel(false, true, false) }

/// C10: ids released in ONE batch of which an earlier one takes a later one down with it (a parent released before its
/// child; one entity prepared twice): the collector ignores what is already gone by the time it gets there - no panic - and
/// still despawns whatever was released behind it.
fn gc_batch_kills_later_id(twice: bool)
{
    let mut world = World::new();
    world.m_drop_table::<(Tag, Parent, Children)>();
    let d = AutoDespawner::new();
    world.insert_resource(d.clone());
    let parent = world.spawn_empty().id();
    let child = world.spawn_empty().id();
    m_link(&mut world, parent, child);
    let bystander = world.spawn_empty().id();
    let sp = d.prepare(parent);
    let sc = if twice { d.prepare(parent) } else { d.prepare(child) };
    let sb = d.prepare(bystander);
    drop(sp); drop(sc); drop(sb);      // one batch: parent, then (child | parent again), then an unrelated entity
    garbage_collect_entities(&mut world);
    assert!(!world.m_alive(parent) && !world.m_alive(child), "C10: released entities and their descendants are gone");
    assert!(!world.m_alive(bystander), "C10: an id that is already gone by the time the collector reaches it is ignored, and everything released behind it is still collected by this first collection");
    let despawns = world.m_despawns;
    garbage_collect_entities(&mut world);
    assert!(world.m_despawns == despawns, "C10: idempotent");
    kani::cover!(true, "end reached");
    std::mem::forget(world);
}
#[kani::proof]
#[kani::stub(core::any::TypeId::of, crate::vh::stub_typeid_of)]
#[kani::stub(<core::any::TypeId as crate::vh::PEq>::eq, crate::vh::stub_typeid_eq)]
#[kani::unwind(5)]
fn gc_parent_then_child_in_one_batch() { gc_batch_kills_later_id(false) }
#[kani::proof]
#[kani::stub(core::any::TypeId::of, crate::vh::stub_typeid_of)]
#[kani::stub(<core::any::TypeId as crate::vh::PEq>::eq, crate::vh::stub_typeid_eq)]
#[kani::unwind(5)]
fn gc_entity_prepared_twice() { gc_batch_kills_later_id(true) }

/// C10 / C07: one entity, the original signal and two clones, dropped in a concrete order (one query per order):
/// nothing is receivable while a holder exists; after the last drop exactly one message, that entity.
fn refcount_order(order: [usize; 3])
{
    let d = AutoDespawner::new();
    let e = ent(any_below(50) as u32);
    let other = d.prepare(ent(99));
    let s = d.prepare(e);
    assert!(s.entity() == e);
    let mut holders: [Option<AutoDespawnSignal>; 3] = [None, None, None];
    holders[1] = Some(s.clone());
    holders[2] = Some(s.clone());
    holders[0] = Some(s);
    let mut i = 0;
    while i < 3
    {
        assert!(d.try_recv().is_none(), "C10: nothing is collected while a clone of the signal exists");
        holders[order[i]] = None;
        i += 1;
    }
    assert!(d.try_recv() == Some(e), "C10: after the last clone is dropped the entity is sent to the collector");
    assert!(d.try_recv().is_none(), "C10: exactly once; another entity's live signal does not interfere");
    drop(other);
    assert!(d.try_recv() == Some(ent(99)));
    kani::cover!(true, "end of harness reached");
}
#[kani::proof]
#[kani::stub(core::any::TypeId::of, crate::vh::stub_typeid_of)]
#[kani::stub(<core::any::TypeId as crate::vh::PEq>::eq, crate::vh::stub_typeid_eq)]
#[kani::unwind(5)]
fn refcount_order_012() { refcount_order([0, 1, 2]) }
#[kani::proof]
#[kani::stub(core::any::TypeId::of, crate::vh::stub_typeid_of)]
#[kani::stub(<core::any::TypeId as crate::vh::PEq>::eq, crate::vh::stub_typeid_eq)]
#[kani::unwind(5)]
fn refcount_order_210() { refcount_order([2, 1, 0]) }
#[kani::proof]
#[kani::stub(core::any::TypeId::of, crate::vh::stub_typeid_of)]
#[kani::stub(<core::any::TypeId as crate::vh::PEq>::eq, crate::vh::stub_typeid_eq)]
#[kani::unwind(5)]
fn refcount_order_102() { refcount_order([1, 0, 2]) }
