// K2 harnesses over the real src/react/reaction_triggers_impl.rs.
use bevy::world::CmdMode;

/// C08 / C18 / C07: `register_despawn_reactor` on a dead entity stores nothing and releases the handle; on a live
/// entity stores exactly one handle under that entity and installs ONE tracker - an existing tracker is never
/// replaced (replacing it would drop it and report a despawn that did not happen).
fn despawn_reactor_registration(state: u8)
{
    let mut world = World::new();
    world.m_drop_table::<(DespawnTracker,)>();
    let despawner = crate::ecs::auto_despawn::verif_h::mk_despawner();
    let cache = ReactCache::default();
    let report = cache.despawn_sender();            // same channel as the cache's receiver
    world.insert_resource(cache);
    let watched = world.spawn_empty().id();
    let reactor = ent(40);
    let handle = ReactorHandle::AutoDespawn(despawner.prepare(reactor));

    // state 0: watched entity dead, 1: alive without tracker, 2: alive with a tracker left by an earlier (revoked) registration
    if state == 0 { world.despawn(watched); }
    if state == 2 { world.m_insert_component(watched, DespawnTracker{ parent: watched, notifier: report.clone() }); }

    register_despawn_reactor(In((watched, handle)), &mut world);

    let n = crate::react::react_cache::verif_h::despawn_entries(world.resource::<ReactCache>(), watched);
    if state == 0
    {
        assert!(n == 0, "C18: nothing is stored for a dead entity");
        assert!(despawner.try_recv() == Some(reactor), "C07/C18: the handle is released, so a ref-counted reactor with no effective trigger is collected");
    }
    else
    {
        assert!(n == 1, "C08: one handle stored under the watched entity");
        assert!(despawner.try_recv().is_none(), "C07: the stored handle keeps the reactor alive");
        assert!(world.m_has::<DespawnTracker>(watched), "C08: the watched entity carries a tracker");
        assert!(crate::react::react_cache::verif_h::pending_despawn_reports(world.resource::<ReactCache>()) == 0,
            "C08: registering must not report a despawn (an existing tracker is not replaced)");
    }
    kani::cover!(true, "end reached");
    std::mem::forget(world);
}
#[kani::proof]
#[kani::stub(core::any::TypeId::of, crate::vh::stub_typeid_of)]
#[kani::stub(<core::any::TypeId as crate::vh::PEq>::eq, crate::vh::stub_typeid_eq)]
#[kani::unwind(4)]
fn despawn_register_dead_entity() { despawn_reactor_registration(0) }
#[kani::proof]
#[kani::stub(core::any::TypeId::of, crate::vh::stub_typeid_of)]
#[kani::stub(<core::any::TypeId as crate::vh::PEq>::eq, crate::vh::stub_typeid_eq)]
#[kani::unwind(4)]
fn despawn_register_fresh_entity() { despawn_reactor_registration(1) }
#[kani::proof]
#[kani::stub(core::any::TypeId::of, crate::vh::stub_typeid_of)]
#[kani::stub(<core::any::TypeId as crate::vh::PEq>::eq, crate::vh::stub_typeid_eq)]
#[kani::unwind(4)]
fn despawn_register_keeps_existing_tracker() { despawn_reactor_registration(2) }

/// C08: dropping the tracker (component removed with its entity) reports exactly that entity, once.
#[kani::proof]
#[kani::stub(core::any::TypeId::of, crate::vh::stub_typeid_of)]
#[kani::stub(<core::any::TypeId as crate::vh::PEq>::eq, crate::vh::stub_typeid_eq)]
#[kani::unwind(4)]
fn despawn_tracker_reports_once()
{
    let (tx, rx) = crossbeam::channel::unbounded::<Entity>();
    let e = ent(any_below(50) as u32);
    let t = DespawnTracker{ parent: e, notifier: tx.clone() };
    assert!(rx.try_recv().is_err(), "C08: nothing is reported while the tracker exists");
    drop(t);
    assert!(rx.try_recv() == Ok(e), "C08: the drop reports the watched entity");
    assert!(rx.try_recv().is_err(), "C08: exactly once");
    kani::cover!(true, "end of harness reached");
}

/// C08 / C07: however a watched entity goes away - despawned directly, or taken down by a recursive despawn of its parent -
/// the world drops its tracker and its entity-scoped reactor table: the despawn is reported exactly once, for that entity,
/// and the ref-counted reactor whose only registration lived on that entity is released to the collector exactly once;
/// an unrelated watched entity reports nothing.
fn watched_entity_goes_away(via_parent: bool)
{
    let mut world = World::new();
    world.m_drop_table::<(DespawnTracker, EntityReactors, bevy::hierarchy::Parent, bevy::hierarchy::Children)>();
    let (tx, rx) = crossbeam::channel::unbounded::<Entity>();
    let despawner = crate::ecs::auto_despawn::verif_h::mk_despawner();
    let reactor = SystemCommand(ent(40));
    let parent = world.spawn_empty().id();
    let watched = world.spawn_empty().id();
    let bystander = world.spawn_empty().id();
    bevy::hierarchy::m_link(&mut world, parent, watched);
    let mut table = EntityReactors::default();
    table.insert(EntityReactionType::Mutation(core::any::TypeId::of::<u8>()), crate::react::react_commands::verif_h::cleanup_handle(&despawner, reactor));
    world.m_insert_component(watched, table);
    world.m_insert_component(watched, DespawnTracker{ parent: watched, notifier: tx.clone() });
    world.m_insert_component(bystander, DespawnTracker{ parent: bystander, notifier: tx.clone() });
    assert!(rx.try_recv().is_err() && despawner.try_recv().is_none());
    if via_parent { world.entity_mut(parent).despawn_recursive(); } else { world.despawn(watched); }
    assert!(!world.m_alive(watched) && world.m_alive(bystander));
    assert!(rx.try_recv() == Ok(watched) && rx.try_recv().is_err(), "C08: the despawn - direct or through the parent - is reported exactly once, for the watched entity only");
    assert!(despawner.try_recv() == Some(*reactor) && despawner.try_recv().is_none(), "C07: a ref-counted reactor whose last registration lived on the despawned entity is released exactly once");
    kani::cover!(true, "end of harness reached");
    std::mem::forget(world);
}
#[kani::proof]
#[kani::stub(core::any::TypeId::of, crate::vh::stub_typeid_of)]
#[kani::stub(<core::any::TypeId as crate::vh::PEq>::eq, crate::vh::stub_typeid_eq)]
#[kani::unwind(5)]
fn watched_entity_despawned_directly() { watched_entity_goes_away(false) }
#[kani::proof]
#[kani::stub(core::any::TypeId::of, crate::vh::stub_typeid_of)]
#[kani::stub(<core::any::TypeId as crate::vh::PEq>::eq, crate::vh::stub_typeid_eq)]
#[kani::unwind(5)]
fn watched_entity_despawned_with_its_parent() { watched_entity_goes_away(true) }
