// K2 harnesses over the real src/ecs/spawned_syscall.rs.
use bevy::ecs::system::{Local, Resource};
pub struct Suicide(pub Entity);
impl Command for Suicide { fn apply(self, w: &mut World) { w.m_despawn_noflush(self.0); } }

pub struct Hits(pub u8);
impl Resource for Hits {}
pub struct Bump;
impl Command for Bump { fn apply(self, w: &mut World) { w.resource_mut::<Hits>().0 += 1; } }

fn counting(In(x): In<u8>, mut c: Commands, mut n: Local<u8>) -> u8 { *n += 1; c.queue(Bump); x + *n }

/// C17: a spawned system runs once per call with the given input, returns its output, has applied its commands on
/// return, and keeps its state between calls; a missing or currently-running system gives `Err` and runs nothing.
#[kani::proof]
#[kani::stub(core::any::TypeId::of, crate::vh::stub_typeid_of)]
#[kani::stub(<core::any::TypeId as crate::vh::PEq>::eq, crate::vh::stub_typeid_eq)]
#[kani::unwind(4)]
fn spawned_syscall_state_and_effects()
{
    let mut world = World::new();
    world.m_apply_table::<(Bump,)>();
    world.m_drop_table::<(SpawnedSystem<In<u8>, u8>,)>();
    world.insert_resource(Hits(0));
    let id = spawn_system(&mut world, counting);
    let x: u8 = kani::any();
    kani::assume(x < 100);
    assert!(spawned_syscall::<In<u8>, u8>(&mut world, id, x) == Ok(x + 1), "C17: output returned; first call sees a fresh Local");
    assert!(world.resource::<Hits>().0 == 1, "C17: the system's commands are applied before the call returns");
    assert!(spawned_syscall::<In<u8>, u8>(&mut world, id, x) == Ok(x + 2), "C17: state persists across calls with the same id");
    assert!(world.resource::<Hits>().0 == 2);
    // a second spawned system of the same function has independent state
    let id2 = spawn_system(&mut world, counting);
    assert!(spawned_syscall::<In<u8>, u8>(&mut world, id2, x) == Ok(x + 1), "C17: state is independent between ids");
    // missing system
    let ghost = SysId::new(Entity::m_new(id.entity().index(), id.entity().generation() + 1));
    assert!(spawned_syscall::<In<u8>, u8>(&mut world, ghost, x).is_err() && world.resource::<Hits>().0 == 3, "C17: a missing system is an error and runs nothing");
    // a system that is currently running (its slot is empty)
    world.get_mut::<SpawnedSystem<In<u8>, u8>>(id.entity()).unwrap().system = None;
    assert!(spawned_syscall::<In<u8>, u8>(&mut world, id, x).is_err() && world.resource::<Hits>().0 == 3, "C17: calling a running system is an error and runs nothing");
    std::mem::forget(world);
    kani::cover!(true, "end of harness reached");
}

pub struct Me(pub Entity);
impl Resource for Me {}
fn suicidal(In(x): In<u8>, mut c: Commands, me: bevy::ecs::system::Res<Me>) -> u8 { c.queue(Suicide(me.0)); c.queue(Bump); x + 1 }

/// C17 / C18: a spawned system that despawns its own entity during the call still returns its output.
#[kani::proof]
#[kani::stub(core::any::TypeId::of, crate::vh::stub_typeid_of)]
#[kani::stub(<core::any::TypeId as crate::vh::PEq>::eq, crate::vh::stub_typeid_eq)]
#[kani::unwind(4)]
fn spawned_syscall_self_despawn_returns_output()
{
    let mut world = World::new();
    world.m_apply_table::<(Suicide, Bump)>();
    world.m_drop_table::<bevy::model::cell::LeakAll>();      // the emptied SpawnedSystem component is leaked, its drop is not the subject
    world.insert_resource(Hits(0));
    let id = spawn_system(&mut world, suicidal);
    world.insert_resource(Me(id.entity()));
    let x: u8 = kani::any();
    kani::assume(x < 100);
    assert!(spawned_syscall::<In<u8>, u8>(&mut world, id, x) == Ok(x + 1), "C17: the system ran once, so its output is returned even though its entity is gone");
    assert!(!world.m_alive(id.entity()) && world.resource::<Hits>().0 == 1, "C17: its commands were applied before returning");
    std::mem::forget(world);
    kani::cover!(true, "end of harness reached");
}

fn suicidal_direct(In(x): In<u8>, world: &mut World) -> u8
{
    let me = world.resource::<Me>().0;
    world.m_despawn_noflush(me);      // the entity is gone when the system returns (how it was despawned is not the subject)
    world.resource_mut::<Hits>().0 += 1;
    x + 1
}

/// C17 / C18: a spawned system whose entity is gone when it returns (it despawned itself) still returns its output: the
/// caller gets `Ok(output)`, the run happened exactly once, nothing panics.
#[kani::proof]
#[kani::stub(core::any::TypeId::of, crate::vh::stub_typeid_of)]
#[kani::stub(<core::any::TypeId as crate::vh::PEq>::eq, crate::vh::stub_typeid_eq)]
#[kani::unwind(4)]
fn spawned_syscall_self_despawn_direct()
{
    let mut world = World::new();
    world.m_drop_table::<bevy::model::cell::LeakAll>();
    world.m_apply_via_fn_pointer();      // exclusive systems queue their cleanup as an (unnameable) closure command
    world.insert_resource(Hits(0));
    let id = spawn_system(&mut world, suicidal_direct);
    world.insert_resource(Me(id.entity()));
    let x: u8 = kani::any();
    kani::assume(x < 100);
    assert!(spawned_syscall::<In<u8>, u8>(&mut world, id, x) == Ok(x + 1), "C17: the system ran once, so its output is returned even though its entity is gone");
    assert!(!world.m_alive(id.entity()) && world.resource::<Hits>().0 == 1, "C17: exactly one run");
    assert!(spawned_syscall::<In<u8>, u8>(&mut world, id, x).is_err() && world.resource::<Hits>().0 == 1, "C17/C18: calling it again is an error and runs nothing");
    std::mem::forget(world);
    kani::cover!(true, "end of harness reached");
}
