// K2 harnesses over the real src/react/react_resource.rs.
#[derive(PartialEq)]
pub struct Score(pub u8);
impl ReactResource for Score {}

/// C14: reactive resource accessors, same contract as the component accessors.
#[kani::proof]
#[kani::stub(core::any::TypeId::of, crate::vh::stub_typeid_of)]
#[kani::stub(<core::any::TypeId as crate::vh::PEq>::eq, crate::vh::stub_typeid_eq)]
#[kani::unwind(4)]
fn react_resource_accessors_trigger_exactly()
{
    let mut world = World::new();
    let old: u8 = kani::any();
    let new: u8 = kani::any();
    let mut inner = ReactResInner::new(Score(old));
    let wp = &mut world as *mut World;
    let mut c = cmds(wp);
    assert!((*inner).0 == old);
    let _ = inner.get_noreact();
    assert!(world.m_queued() == 0, "C14: reads and get_noreact never trigger");
    let res = inner.set_if_neq(&mut c, Score(new));
    if new == old { assert!(res.is_none() && (*inner).0 == old && world.m_queued() == 0, "C14: equal value: nothing happens"); }
    else { assert!(matches!(res, Some(Score(x)) if x == old) && (*inner).0 == new && world.m_queued() == 1, "C14: different value: stored, old returned, one trigger"); }
    let before = world.m_queued();
    inner.get_mut(&mut c).0 = 5;
    assert!(world.m_queued() == before + 1 && (*inner).0 == 5, "C14: get_mut triggers exactly once per call");
    kani::cover!(new == old, "equal");
    kani::cover!(new != old, "different");
    std::mem::forget(world);
}
