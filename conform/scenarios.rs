// Conformance scenarios: the SAME code is compiled once against real Bevy 0.15 (conform/real) and once against the
// environment model /verif/envstub/bevy (conform/model); each scenario returns an observation log and the two logs
// must be identical.  They exercise exactly the behaviours the K2 obligations rely on (DESIGN.md section 3, E1-E7).
use bevy::prelude::*;
use bevy::ecs::world::Command;
use std::sync::{Arc, Mutex};

type Log = Arc<Mutex<Vec<String>>>;
fn push(l: &Log, s: impl Into<String>) { l.lock().unwrap().push(s.into()); }

#[derive(Component)] struct A(u32);
#[derive(Component)] struct B(u32);
#[derive(Component)] struct Noisy(Log, u32);
impl Drop for Noisy { fn drop(&mut self) { push(&self.0, format!("drop Noisy({})", self.1)); } }
#[derive(Resource)] struct R(u32);
#[derive(Resource)] struct LogRes(Log);

struct Say(Log, &'static str, Vec<&'static str>);
impl Command for Say
{
    fn apply(self, world: &mut World)
    {
        push(&self.0, self.1);
        for s in self.2 { let l = self.0.clone(); world.commands().queue(Say(l, s, vec![])); }
    }
}

fn prep(world: &mut World)
{
    let _ = world;
    #[cfg(model)] { world.m_apply_via_fn_pointer(); world.m_drop_table::<(A, B, Noisy, Children, Parent, R, LogRes)>(); }
}

/// E1: FIFO + flush after every command (commands queued by a command run before the next one)
fn e1_telescoping(l: &Log)
{
    let mut world = World::new(); prep(&mut world);
    world.commands().queue(Say(l.clone(), "a", vec!["a1", "a2"]));
    world.commands().queue(Say(l.clone(), "b", vec!["b1"]));
    world.commands().queue(Say(l.clone(), "c", vec![]));
    world.flush();
}

/// E2: generations, stale ids, reserved ids are visible to Commands::get_entity and become alive on flush
fn e2_entities(l: &Log)
{
    let mut world = World::new(); prep(&mut world);
    let e = world.spawn(A(1)).id();
    push(l, format!("alive {}", world.get_entity(e).is_ok()));
    world.despawn(e);
    push(l, format!("alive after despawn {}", world.get_entity(e).is_ok()));
    let e2 = world.spawn(A(2)).id();
    push(l, format!("index reused {} same id {}", e2.index() == e.index(), e2 == e));
    push(l, format!("stale get {}", world.get::<A>(e).is_some()));
    let reserved = { let mut c = world.commands(); let r = c.spawn_empty().id(); push(l, format!("reserved visible to commands {}", c.get_entity(r).is_some())); push(l, format!("stale visible to commands {}", c.get_entity(e).is_some())); r };
    push(l, format!("reserved alive before flush {}", world.get_entity(reserved).is_ok()));
    world.flush();
    push(l, format!("reserved alive after flush {}", world.get_entity(reserved).is_ok()));
    push(l, format!("despawn dead returns {}", world.despawn(e)));
}

/// E3: a component's Drop runs exactly once: on replace, on remove, on despawn; try_insert on a dead entity is silent
fn e3_drops(l: &Log)
{
    let mut world = World::new(); prep(&mut world);
    let e = world.spawn(Noisy(l.clone(), 1)).id();
    world.entity_mut(e).insert(Noisy(l.clone(), 2));
    push(l, "after replace");
    world.entity_mut(e).remove::<Noisy>();
    push(l, "after remove");
    world.entity_mut(e).insert(Noisy(l.clone(), 3));
    world.despawn(e);
    push(l, "after despawn");
    let fresh = world.spawn_empty().id();
    world.commands().entity(fresh).try_insert(A(1));
    let dead = e;
    { let mut c = world.commands(); if let Some(mut ec) = c.get_entity(dead) { ec.try_insert(A(9)); push(l, "queued on dead"); } else { push(l, "dead not addressable"); } }
    world.flush();
}

fn count_removed(mut removed: RemovedComponents<A>, log: Res<LogRes>)
{
    let v: Vec<String> = removed.read().map(|e| format!("{}", e.index())).collect();
    push(&log.0, format!("removed A: [{}]", v.join(",")));
}

/// E4: each removal (explicit or by despawn) is reported once per reader
fn e4_removed(l: &Log)
{
    let mut world = World::new(); prep(&mut world);
    world.insert_resource(LogRes(l.clone()));
    let e1 = world.spawn((A(1), B(1))).id();
    let e2 = world.spawn(A(2)).id();
    let _e3 = world.spawn(B(3)).id();
    let mut sys = IntoSystem::into_system(count_removed);
    sys.initialize(&mut world);
    sys.run((), &mut world);
    world.entity_mut(e1).remove::<A>();
    world.despawn(e2);
    sys.run((), &mut world);
    sys.run((), &mut world);
}

fn uses_local(In(x): In<u32>, mut n: Local<u32>, mut c: Commands, log: Res<LogRes>) -> u32
{
    *n += 1;
    let l = log.0.clone();
    push(&l, format!("body {} local {}", x, *n));
    c.queue(Say(l, "deferred", vec![]));
    x + *n
}
fn exclusive(world: &mut World)
{
    let l = world.resource::<LogRes>().0.clone();
    push(&l, "exclusive body");
    world.commands().queue(Say(l, "queued by exclusive", vec![]));
}

/// E6: run = body then apply_deferred; system state persists in the system value; an exclusive system's run flushes
fn e6_systems(l: &Log)
{
    let mut world = World::new(); prep(&mut world);
    world.insert_resource(LogRes(l.clone()));
    let mut sys = IntoSystem::into_system(uses_local);
    sys.initialize(&mut world);
    push(l, format!("exclusive? {}", sys.is_exclusive()));
    push(l, format!("has_deferred (Commands param)? {}", sys.has_deferred()));
    let mut plain = IntoSystem::into_system(count_removed);
    plain.initialize(&mut world);
    push(l, format!("has_deferred (no deferred param)? {}", plain.has_deferred()));
    let a = sys.run(10, &mut world);
    push(l, format!("returned {}", a));
    let b = sys.run(20, &mut world);
    push(l, format!("returned {}", b));
    let mut ex = IntoSystem::into_system(exclusive);
    ex.initialize(&mut world);
    push(l, format!("exclusive? {}", ex.is_exclusive()));
    push(l, format!("has_deferred (exclusive)? {}", ex.has_deferred()));
    world.commands().queue(Say(l.clone(), "queued before exclusive", vec![]));
    ex.run((), &mut world);
    push(l, "after exclusive run");
}

/// E7 + resources: despawn_recursive takes children along; resource_scope; get_resource_or_insert_with
fn e7_hierarchy_resources(l: &Log)
{
    let mut world = World::new(); prep(&mut world);
    let parent = world.spawn(A(1)).id();
    let child = world.spawn(A(2)).id();
    let other = world.spawn(A(3)).id();
    world.entity_mut(parent).add_child(child);
    world.entity_mut(parent).despawn_recursive();
    push(l, format!("parent {} child {} other {}", world.get_entity(parent).is_ok(), world.get_entity(child).is_ok(), world.get_entity(other).is_ok()));
    world.insert_resource(R(1));
    world.resource_scope(|w: &mut World, mut r: Mut<R>| { r.0 += 1; push(l, format!("in scope: resource visible {}", w.contains_resource::<R>())); });
    push(l, format!("after scope {}", world.resource::<R>().0));
    world.insert_resource(R(5));
    push(l, format!("replaced {}", world.resource::<R>().0));
    let removed = world.remove_resource::<R>().map(|r| r.0);
    push(l, format!("removed {:?} contains {}", removed, world.contains_resource::<R>()));
    let v = world.get_resource_or_insert_with(|| R(9)).0;
    push(l, format!("or_insert_with {}", v));
}

pub fn run_all() -> Vec<(String, Vec<String>)>
{
    let mut out = Vec::new();
    let list: Vec<(&str, fn(&Log))> = vec![("e1_telescoping", e1_telescoping), ("e2_entities", e2_entities), ("e3_drops", e3_drops),
        ("e4_removed", e4_removed), ("e6_systems", e6_systems), ("e7_hierarchy_resources", e7_hierarchy_resources)];
    for (name, f) in list
    {
        let l: Log = Arc::new(Mutex::new(Vec::new()));
        f(&l);
        out.push((name.to_string(), l.lock().unwrap().clone()));
    }
    out
}
