include!("../../scenarios.rs");
fn main()
{
    for (name, log) in run_all()
    {
        println!("## {}", name);
        for line in log { println!("{}", line); }
    }
}
